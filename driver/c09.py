#!/usr/bin/env python3
"""C09 driver: coverage-guided fuzzing (libFuzzer, ASan+UBSan) of every assemble entry point, grammar-based
structural mutation (engine, ASan+UBSan) and a MemorySanitizer replay of the resulting corpus."""
import glob, hashlib, json, os, re, shutil, subprocess, sys, time

ROOT = os.path.dirname(os.path.dirname(os.path.abspath(__file__)))
sys.path.insert(0, os.path.join(ROOT, "driver"))
import build  # noqa: E402

B = os.path.join(ROOT, "build")
W = os.path.join(B, "c09")
SAN = "-fsanitize=address,undefined -fno-sanitize-recover=undefined"


def sh(cmd, **kw):
    return subprocess.run(cmd, shell=True, stdout=subprocess.PIPE, stderr=subprocess.STDOUT, text=True, errors="replace", **kw)


def build_targets():
    build.build_lib("fuzz")
    build.build_lib("msan")
    fz = os.path.join(B, "fuzz_asm")
    src = os.path.join(ROOT, "engine", "fuzz", "fuzz_asm.cpp")
    objs = " ".join(build.lib_objs("fuzz"))
    r = sh(f"clang++ -std=gnu++17 -O1 -g -fsanitize=fuzzer,address,undefined -fno-sanitize-recover=undefined -fno-sanitize=enum -I{build.REPO}/src {src} {objs} -o {fz}")
    if r.returncode:
        sys.stderr.write(r.stdout); raise SystemExit(2)
    ms = os.path.join(B, "replay_msan")
    src = os.path.join(ROOT, "engine", "fuzz", "replay_c.c")
    objs = " ".join(build.lib_objs("msan"))
    r = sh(f"clang -O1 -g -fsanitize=memory -fsanitize-memory-track-origins -I{build.REPO}/src {src} {objs} -o {ms}")
    if r.returncode:
        sys.stderr.write(r.stdout); raise SystemExit(2)
    return fz, ms


def fuzz_env():
    e = dict(os.environ)
    e["ASAN_OPTIONS"] = "detect_leaks=1:abort_on_error=1:allocator_may_return_null=1"
    e["UBSAN_OPTIONS"] = "halt_on_error=1:abort_on_error=1:print_stacktrace=1"
    return e


def run_fuzzer(fz, corpus_dir, art_dir, seconds, jobs, seed, use_dict=True):
    os.makedirs(art_dir, exist_ok=True)
    cmd = [fz, "-fork=%d" % jobs, "-ignore_crashes=1", "-ignore_timeouts=1", "-ignore_ooms=1", "-max_total_time=%d" % seconds, "-timeout=5", "-rss_limit_mb=2048",
           "-max_len=700", "-seed=%d" % seed, "-artifact_prefix=" + art_dir + "/", "-print_final_stats=1", "-close_fd_mask=2"]
    if use_dict:
        cmd.append("-dict=" + os.path.join(ROOT, "corpus", "c09.dict"))
    cmd.append(corpus_dir)
    try:
        r = subprocess.run(cmd, env=fuzz_env(), stdout=subprocess.PIPE, stderr=subprocess.STDOUT, text=True, errors="replace", timeout=seconds * 4 + 300)
        out = r.stdout
    except subprocess.TimeoutExpired as ex:
        out = (ex.stdout or b"").decode("latin1") if isinstance(ex.stdout, bytes) else (ex.stdout or "")
        out += "\nDRIVER: fuzzer exceeded the safety cap\n"
    execs = cov = ft = 0
    for m in re.finditer(r"#(\d+): cov: (\d+) ft: (\d+)", out):
        execs, cov, ft = max(execs, int(m.group(1))), max(cov, int(m.group(2))), max(ft, int(m.group(3)))
    return dict(execs=execs, cov=cov, ft=ft, log=out[-3000:])


def reproduce(fz, path, tries=3, timeout=60):
    """returns (count of failing runs, signature, report excerpt)"""
    fails = 0; sig = ""; rep = ""
    for _ in range(tries):
        try:
            r = subprocess.run([fz, "-timeout=50", "-rss_limit_mb=2048", path], env=fuzz_env(), stdout=subprocess.PIPE, stderr=subprocess.STDOUT, text=True, errors="replace", timeout=timeout)
            out = r.stdout; rc = r.returncode
        except subprocess.TimeoutExpired:
            out = "DRIVER: timeout"; rc = 124
        if rc != 0:
            fails += 1; rep = out[-2500:]
            m = re.search(r"SUMMARY: (\w+): ([\w-]+) ([^\n]*)", out)
            kind = (m.group(1) + ":" + m.group(2)) if m else ("timeout" if rc == 124 or "timeout" in out else "abort")
            fr = re.search(r"#\d+ 0x[0-9a-f]+ in (\w+) /repo/src/(\w+\.c):(\d+)", out)
            v = re.search(r"C09 ORACLE VIOLATION: ([^\n(]*)", out)
            sig = kind + "@" + ((fr.group(2) + ":" + fr.group(1)) if fr else (v.group(1).strip() if v else "?"))
    return fails, sig, rep


def load_known():
    out = []
    p = os.path.join(ROOT, "known_findings.txt")
    for line in open(p):
        if line.startswith("KNOWN:") and "property=C09" in line:
            head, _, what = line[6:].strip().partition(" what=")
            d = dict(kv.split("=", 1) for kv in head.split())
            out.append({"id": d["id"], "require": d.get("require", "").split(","), "what": what})
    return out


def nontrivial_text(b):
    t = b[3:]
    for line in re.split(rb"[\r\n]", t):
        if re.match(rb"^[ \t]*[A-Za-z][A-Za-z0-9]* +[^ ;]", line):
            return True
    return False


def run(prop, tier, seed, jobs):
    import run as runmod
    t0 = time.time()
    fz, ms = build_targets()
    exe = build.build_engine_fi()   # the fault layer gives the library-managed buffer an inaccessible page right behind its length
    shutil.rmtree(W, ignore_errors=True)
    os.makedirs(W)
    seeded = os.path.join(W, "corpus_seeded"); empty = os.path.join(W, "corpus_empty"); art = os.path.join(W, "artifacts")
    shutil.copytree(os.path.join(ROOT, "corpus", "c09"), seeded)
    reg = os.path.join(ROOT, "corpus", "c09_regress")
    if os.path.isdir(reg):
        for f in glob.glob(os.path.join(reg, "*")):
            shutil.copy(f, seeded)
    os.makedirs(empty)
    nseeds = len(os.listdir(seeded))
    total = 60 if tier == "quick" else 900
    inconclusive = []
    # (0) replay tier: every committed seed / regression input once
    r = sh(f"{fz} -runs=0 -close_fd_mask=2 {seeded}", env=fuzz_env(), timeout=600)
    replay_ok = r.returncode == 0
    # (i) coverage-guided campaigns: seeded corpus + dictionary (3/4 of the budget), empty corpus without dictionary (1/4)
    s1 = run_fuzzer(fz, seeded, art, total * 3 // 4, jobs, seed, True)
    s2 = run_fuzzer(fz, empty, art, total // 4, jobs, seed + 1, False)
    if s1["execs"] == 0:
        inconclusive.append("libFuzzer reported no executions: " + s1["log"][-300:])
    # artifacts
    violations = []; known_hits = {}; seen = {}; noise = []
    known = load_known()
    arts = sorted(glob.glob(os.path.join(art, "*")))
    if not replay_ok:
        # find the seed that fails
        for f in sorted(glob.glob(os.path.join(seeded, "*")))[:400]:
            rr = sh(f"{fz} -close_fd_mask=2 {f}", env=fuzz_env(), timeout=120)
            if rr.returncode != 0:
                arts.append(f); break
    for a in arts:
        base = os.path.basename(a)
        kind = base.split("-")[0]
        fails, sig, rep = reproduce(fz, a)
        if fails < 3:
            noise.append({"artifact": base, "reproduced": fails}); continue
        if kind in ("timeout", "slow", "oom") and "timeout" not in sig:
            noise.append({"artifact": base, "reproduced": fails, "note": kind}); continue
        if sig in seen:
            seen[sig]["count"] += 1; continue
        k = next((k for k in known if all(req in ("sig:" + sig, "kind:" + sig.split("@")[0]) or req == "" for req in k["require"])), None)
        rec = {"sig": sig, "count": 1, "report": rep, "artifact": a}
        seen[sig] = rec
        if k:
            known_hits[k["id"]] = known_hits.get(k["id"], 0) + 1; rec["known"] = k
        else:
            d = os.path.join(ROOT, "replays", "C09"); os.makedirs(d, exist_ok=True)
            dst = os.path.join(d, "crash-" + hashlib.sha1(open(a, "rb").read()).hexdigest()[:16]); shutil.copy(a, dst)
            rec["replay"] = dst; violations.append(rec)
    # (ii) grammar mutation through the engine
    gout = os.path.join(B, "run", "C09G")
    rg = runmod.run_engine(exe, "C09G", tier, seed, gout, jobs)
    agg = runmod.aggregate(gout)
    if rg.returncode != 0 or agg["nsummaries"] == 0:
        inconclusive.append("grammar part did not finish")
    gviol = []
    gc = [f for f in agg["failures"] if not f.get("known")] + [{"case": c["case"], "text": c["text"], "symptom": "crash", "detail": c["how"]} for c in agg["crashes"]]
    gseen = set()
    for f in gc[:30]:
        okc = 0
        for _ in range(3):
            rc, out = runmod.replay_once(exe, "C09", f["case"])
            if rc != 0:
                okc += 1
        if okc == 3:
            m = re.search(r"in (\w+) /repo/src/(\w+\.c):(\d+)", out)
            sg = (m.group(2) + ":" + m.group(1)) if m else f["symptom"]
            if sg in gseen:
                continue
            gseen.add(sg)
            f["replay"] = runmod.write_replay("C09", f, seed, tier); f["sig"] = sg; gviol.append(f)
    # (iii) MemorySanitizer replay of the union corpus (string entry points; the pure-C driver has no libstdc++)
    files = sorted(glob.glob(os.path.join(seeded, "*")) + glob.glob(os.path.join(empty, "*")))
    msan_runs = 0; msan_fail = []
    env = dict(os.environ); env["MSAN_OPTIONS"] = "halt_on_error=1:exit_code=86"
    for i in range(0, len(files), 200):
        batch = files[i:i + 200]
        try:
            rr = subprocess.run([ms] + batch, env=env, stdout=subprocess.DEVNULL, stderr=subprocess.PIPE, text=True, errors="replace", timeout=600)
        except subprocess.TimeoutExpired:
            inconclusive.append("MSan replay timed out"); continue
        msan_runs += len(batch)
        if rr.returncode != 0:
            for f in batch:
                r1 = subprocess.run([ms, f], env=env, stdout=subprocess.DEVNULL, stderr=subprocess.PIPE, text=True, errors="replace", timeout=120)
                if r1.returncode != 0:
                    m = re.search(r"in (\w+) /repo/src/(\w+\.c):(\d+)", r1.stderr)
                    sg = "msan@" + ((m.group(2) + ":" + m.group(1)) if m else "?")
                    if not any(x["sig"] == sg for x in msan_fail):
                        d = os.path.join(ROOT, "replays", "C09"); os.makedirs(d, exist_ok=True)
                        dst = os.path.join(d, "msan-" + hashlib.sha1(open(f, "rb").read()).hexdigest()[:16]); shutil.copy(f, dst)
                        msan_fail.append({"sig": sg, "replay": dst, "report": r1.stderr[-1500:]})
    # evidence
    corpus_nt = 0; samples = []
    for f in files:
        b = open(f, "rb").read()
        if nontrivial_text(b):
            corpus_nt += 1
            if len(samples) < 10 and len(b) < 120:
                samples.append("fuzz corpus entry: header %s text %r" % (b[:3].hex(), b[3:].decode("latin1")))
    samples += agg["samples"][:8]
    evals = s1["execs"] + s2["execs"] + agg["evaluations"] + msan_runs
    allv = violations + gviol + msan_fail
    cov = {
        "evaluations": evals, "distinct_nontrivial": corpus_nt + agg["distinct"],
        "rule": "(i) libFuzzer -fork=%d over the structured target (3 header bytes select option combination, entry point incl. file variants via memfd, buffer kind/size, chunk fitting, start offset; rest is the text): seeded corpus + dictionary for %d s, empty corpus without dictionary for %d s; (ii) grammar mutation: valid pool lines with 1-3 structural mutations (append up to 8 operands, lengthen to 90-300 chars, 13-20 char mnemonics, 5-8 char register-like tokens, bracket runs, sign/digit runs, random bytes 1..255, keyword runs, span deletion, line duplication) through plain/fitting/counting on external buffers of 0..5000 bytes and the internal buffer; (iii) MemorySanitizer replay of the final corpora with a pure-C driver. Non-trivial = the text has a mnemonic-like token followed by a blank and an operand (reaches the operand tokenizer); distinct = distinct final-corpus entries satisfying that + distinct mutated lines. For every other input the text handed to the const char * entry points lies in read-only memory whose NUL is the last byte in front of an inaccessible page (fuzz target and grammar part)." % (jobs, total * 3 // 4, total // 4),
        "samples": samples,
        "libfuzzer": {"seeded": {k: s1[k] for k in ("execs", "cov", "ft")}, "empty": {k: s2[k] for k in ("execs", "cov", "ft")}, "seed_inputs": nseeds, "final_corpus_files": len(files), "seed_replay_ok": replay_ok},
        "grammar": {"evaluations": agg["evaluations"], "classes": agg["classes"]},
        "msan_replays": msan_runs,
        "load_noise_artifacts": noise, "excluded_by_known_finding": known_hits,
        "violations_confirmed": [{"sig": v.get("sig"), "replay": v.get("replay")} for v in allv],
        "inconclusive": inconclusive,
    }
    ev = {"property_id": "C09", "tier": tier, "seed": seed, "level": "exploration", "coverage": cov,
          "assumptions": ["libFuzzer / ASan / UBSan / MSan runtimes of clang 14", "a 5 s per-input timeout, confirmed three times in isolation with a 50 s limit, stands for non-termination"],
          "wall_s": round(time.time() - t0, 1), "violations": len(allv)}
    os.makedirs(os.path.join(ROOT, "evidence"), exist_ok=True)
    json.dump(ev, open(os.path.join(ROOT, "evidence", "C09.json"), "w"), indent=1)
    for rec in seen.values():
        if rec.get("known"):
            print("KNOWN-FINDING: property=C09 %s  [%s]" % (rec["known"]["what"], rec["known"]["id"]))
    print("C09 %s seed=%d: %d fuzz execs (cov %d, ft %d) + %d grammar cases + %d MSan replays, %d distinct non-trivial, %.0fs" %
          (tier, seed, s1["execs"] + s2["execs"], max(s1["cov"], s2["cov"]), max(s1["ft"], s2["ft"]), agg["evaluations"], msan_runs, cov["distinct_nontrivial"], time.time() - t0))
    if allv:
        for v in allv:
            print("  " + str(v.get("sig")) + " : " + (v.get("report") or v.get("detail") or "")[-300:].replace("\n", " | "))
            print("VIOLATION property=C09 replay=%s" % v["replay"])
        return 1
    if inconclusive:
        for i in inconclusive:
            print("INCONCLUSIVE: " + i)
        return 2
    return 0


def replay(prop, path):
    fz, ms = build_targets()
    if path.endswith(".json"):
        import run as runmod
        exe = build.build_engine_fi()   # the fault layer gives the library-managed buffer an inaccessible page right behind its length
        rec = json.load(open(path))
        rc, out = runmod.replay_once(exe, "C09", rec["case"])
        sys.stdout.write(out)
    elif os.path.basename(path).startswith("msan-"):
        env = dict(os.environ); env["MSAN_OPTIONS"] = "halt_on_error=1:exit_code=86"
        r = subprocess.run([ms, path], env=env); rc = r.returncode
    else:
        r = subprocess.run([fz, "-timeout=50", path], env=fuzz_env()); rc = r.returncode
    if rc != 0:
        print("VIOLATION property=C09 replay=%s" % path)
        return 1
    print("replay passes")
    return 0
