#!/usr/bin/env python3
"""Incremental build of the code under test (from /repo's working tree) and of the engine.

Flavours of the library objects live in /verif/build/<flavour>/; they are rebuilt whenever the hash of
/repo/src/*.c + *.h (or the flags) changes.  The engine (/verif/engine/*.cpp) is rebuilt when its own
sources or the public header change, and is always re-linked against the current library objects.
"""
import glob, hashlib, os, subprocess, sys, time
from concurrent.futures import ThreadPoolExecutor

REPO = os.environ.get("VERIF_REPO", "/repo")
ROOT = os.path.dirname(os.path.dirname(os.path.abspath(__file__)))
BUILD = os.path.join(ROOT, "build")
GUARD = "-DASSEMBLYLINE_VERIF"

SAN = "-fsanitize=address,undefined -fno-sanitize-recover=undefined"
FLAVOURS = {
    # name: (compiler, flags)
    "asan": ("clang", f"-O1 -g {SAN} {GUARD} -std=gnu99"),
    "fuzz": ("clang", f"-O1 -g {SAN} -fsanitize=fuzzer-no-link {GUARD} -std=gnu99"),
    "tsan": ("clang", f"-O1 -g -fsanitize=thread {GUARD} -std=gnu99"),
    "msan": ("clang", f"-O1 -g -fsanitize=memory -fsanitize-memory-track-origins {GUARD} -std=gnu99"),
    "plain": ("gcc", f"-O2 -g -std=gnu99 -Wall -Wextra {GUARD}"),
}


def sh(cmd, **kw):
    r = subprocess.run(cmd, shell=True, stdout=subprocess.PIPE, stderr=subprocess.STDOUT, text=True, **kw)
    if r.returncode != 0:
        sys.stderr.write("BUILD FAILED: %s\n%s\n" % (cmd, r.stdout))
        raise SystemExit(2)
    return r.stdout


def digest(paths, extra=""):
    h = hashlib.sha256(extra.encode())
    for p in sorted(paths):
        h.update(p.encode())
        with open(p, "rb") as f:
            h.update(f.read())
    return h.hexdigest()


def build_lib(flavour):
    cc, flags = FLAVOURS[flavour]
    d = os.path.join(BUILD, flavour)
    os.makedirs(d, exist_ok=True)
    srcs = sorted(glob.glob(os.path.join(REPO, "src", "*.c")))
    hdrs = sorted(glob.glob(os.path.join(REPO, "src", "*.h")))
    dg = digest(srcs + hdrs, flags)
    stamp = os.path.join(d, "stamp")
    if os.path.exists(stamp) and open(stamp).read() == dg:
        return d, False
    for o in glob.glob(os.path.join(d, "*.o")):
        os.unlink(o)
    def one(s):
        o = os.path.join(d, os.path.basename(s)[:-2] + ".o")
        sh(f"{cc} {flags} -I{REPO}/src -c {s} -o {o}")
    with ThreadPoolExecutor(16) as ex:
        list(ex.map(one, srcs))
    open(stamp, "w").write(dg)
    return d, True


WRAPPED = ["malloc", "mmap", "mremap", "munmap", "open", "fstat", "read", "fopen", "fwrite", "fclose",
           "write", "pwrite", "pread", "calloc", "realloc", "fflush", "fdopen", "ftruncate", "openat", "creat", "stat", "fread"]
# libc functions the library may call without going through an interposer (pure / diagnostics / release of resources)
ALLOWED = {"free", "close", "fprintf", "printf", "puts", "putchar", "perror", "strncpy", "strlen", "strcmp", "strtoul", "strtok_r", "strstr", "strncmp",
           "strchr", "strcasecmp", "__ctype_tolower_loc", "stderr", "stdout", "memset", "memcpy", "memmove", "strcpy", "tolower", "__errno_location", "fputs", "fputc", "__stack_chk_fail",
           "memcmp", "strtol", "strncasecmp", "abort", "snprintf", "sprintf", "vfprintf", "strnlen", "__ctype_b_loc", "__ctype_toupper_loc", "toupper", "isdigit", "isalpha", "strtoull", "strtoll", "atoi", "lseek", "fileno", "getpagesize", "sysconf", "memchr", "strrchr", "strdup", "feof", "ferror", "fseek", "ftell", "rewind", "unlink", "remove", "strcasestr", "strpbrk", "strspn", "strcspn", "strtok", "strcat", "strncat", "strtod", "qsort", "bsearch", "isspace", "isxdigit", "isalnum", "isprint", "isupper", "islower", "setvbuf", "strerror", "getenv", "memmem", "stpcpy", "strndup", "atol", "labs", "abs"}


def build_lib_fi():
    """asan objects of the library with its libc resource calls redirected to the interposers of engine/fault/wrap.c"""
    d0, changed = build_lib("asan")
    d = os.path.join(BUILD, "asanfi")
    os.makedirs(d, exist_ok=True)
    stamp = os.path.join(d, "stamp")
    dg = open(os.path.join(d0, "stamp")).read() + digest([os.path.join(ROOT, "engine", "fault", "wrap.c"), os.path.join(ROOT, "engine", "fault", "wrap.h")], ",".join(WRAPPED))
    if os.path.exists(stamp) and open(stamp).read() == dg:
        return d
    for o in glob.glob(os.path.join(d, "*.o")):
        os.unlink(o)
    redef = " ".join("--redefine-sym %s=alw_%s" % (s, s) for s in WRAPPED)
    defined = set()
    unknown = set()
    objs = lib_objs("asan")
    for o in objs:
        for line in sh(f"nm --defined-only {o}").splitlines():
            parts = line.split()
            if len(parts) == 3:
                defined.add(parts[2])
    for o in objs:
        sh(f"objcopy {redef} {o} {os.path.join(d, os.path.basename(o))}")
        # every undefined symbol must be interposed, library-internal, a sanitizer hook or on the allow-list
        for line in sh(f"nm -u {o}").splitlines():
            sym = line.split()[-1]
            if sym in defined or sym in WRAPPED or sym in ALLOWED or sym.startswith(("__asan", "__ubsan", "__sanitizer", "__sancov")):
                continue
            # not fatal for the build: only the fault enumeration (C17) depends on every resource call being interposed and
            # refuses to run (inconclusive) when this list is not empty - see run.py
            unknown.add(sym)
    sh(f"clang -O1 -g {SAN} -c {os.path.join(ROOT, 'engine', 'fault', 'wrap.c')} -o {os.path.join(d, 'zz_wrap.o')}")
    open(os.path.join(d, "uninterposed"), "w").write("\n".join(sorted(unknown)))
    open(stamp, "w").write(dg)
    return d


def uninterposed():
    """libc symbols the library references that are neither interposed nor known to be pure (empty on the pinned tree)"""
    p = os.path.join(BUILD, "asanfi", "uninterposed")
    return [l for l in open(p).read().split()] if os.path.exists(p) else []


def lib_objs(flavour):
    return sorted(glob.glob(os.path.join(BUILD, flavour, "*.o")))


def build_engine():
    """C++ engine (asan flavour of the library)."""
    libdir, changed = build_lib("asan")
    eng = os.path.join(ROOT, "engine")
    cpps = sorted(glob.glob(os.path.join(eng, "*.cpp")))
    hpps = sorted(glob.glob(os.path.join(eng, "*.hpp"))) + [os.path.join(REPO, "src", "assemblyline.h")]
    cxxflags = f"-std=gnu++17 -O1 -g {SAN} -fno-sanitize=enum -Wno-deprecated-declarations -I{REPO}/src -I{eng}"
    odir = os.path.join(BUILD, "engine")
    os.makedirs(odir, exist_ok=True)
    hdg = digest(hpps, cxxflags)
    todo = []
    for c in cpps:
        o = os.path.join(odir, os.path.basename(c)[:-4] + ".o")
        st = o + ".stamp"
        dg = digest([c], hdg)
        if not (os.path.exists(o) and os.path.exists(st) and open(st).read() == dg):
            todo.append((c, o, st, dg))
    def one(t):
        c, o, st, dg = t
        sh(f"clang++ {cxxflags} -c {c} -o {o}")
        open(st, "w").write(dg)
    if todo:
        with ThreadPoolExecutor(16) as ex:
            list(ex.map(one, todo))
    exe = os.path.join(BUILD, "alverif")
    objs = [os.path.join(odir, os.path.basename(c)[:-4] + ".o") for c in cpps]
    if todo or changed or not os.path.exists(exe):
        sh(f"clang++ {SAN} {' '.join(objs)} {' '.join(lib_objs('asan'))} -lrapidcheck -lpthread -o {exe}")
    return exe


def build_asmline():
    """the CLI tool, built like the project does (gcc -O2) from /repo/tools/asmline.c and the plain library objects"""
    d, changed = build_lib("plain")
    exe = os.path.join(d, "asmline")
    src = os.path.join(REPO, "tools", "asmline.c")
    dg = digest([src], open(os.path.join(d, "stamp")).read())
    st = exe + ".stamp"
    if not (os.path.exists(exe) and os.path.exists(st) and open(st).read() == dg):
        sh(f"gcc -O2 -g -std=gnu99 -Wall -Wextra -I{REPO}/src {src} {' '.join(lib_objs('plain'))} -o {exe}")
        open(st, "w").write(dg)
    return exe


def build_engine_fi():
    """the same engine linked against the fault-injectable library objects (used by C17 and C19)"""
    build_engine()
    d = build_lib_fi()
    eng = os.path.join(ROOT, "engine")
    odir = os.path.join(BUILD, "engine")
    cpps = sorted(glob.glob(os.path.join(eng, "*.cpp")))
    objs = [os.path.join(odir, os.path.basename(c)[:-4] + ".o") for c in cpps]
    exe = os.path.join(BUILD, "alverif_fi")
    libo = sorted(glob.glob(os.path.join(d, "*.o")))
    newest = max(os.path.getmtime(x) for x in objs + libo)
    if not os.path.exists(exe) or os.path.getmtime(exe) < newest:
        sh(f"clang++ {SAN} -DALW_FI {' '.join(objs)} {' '.join(libo)} -lrapidcheck -lpthread -o {exe}")
    return exe


if __name__ == "__main__":
    t = time.time()
    what = sys.argv[1:] or ["engine"]
    for w in what:
        if w == "engine":
            print(build_engine())
            print(build_engine_fi())
            print(build_asmline())
        else:
            print(build_lib(w))
    print("build %.1fs" % (time.time() - t))
