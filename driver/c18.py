#!/usr/bin/env python3
"""C18 driver: N threads with private generated scripts, ThreadSanitizer build (data races on library state) and
ASan+UBSan build (memory errors), each thread's results compared with the single-threaded reference."""
import json, os, re, subprocess, sys, time
ROOT = os.path.dirname(os.path.dirname(os.path.abspath(__file__)))
sys.path.insert(0, os.path.join(ROOT, "driver"))
import build  # noqa: E402
B = os.path.join(ROOT, "build")


def build_bins():
    out = {}
    src = os.path.join(ROOT, "engine", "threads", "c18_threads.cpp")
    eng = os.path.join(ROOT, "engine")
    for flav, san in (("tsan", "-fsanitize=thread"), ("asan", build.SAN + " -fno-sanitize=enum"), ("plain", "-O2")):
        d, changed = build.build_lib(flav)
        exe = os.path.join(B, "c18_" + flav)
        dg = build.digest([src] + [os.path.join(eng, h) for h in ("prog.hpp", "gen.hpp", "lines.hpp", "intent.hpp", "x86dec.hpp", "al.hpp", "harness.hpp")], open(os.path.join(d, "stamp")).read() + san)
        st = exe + ".stamp"
        if not (os.path.exists(exe) and os.path.exists(st) and open(st).read() == dg):
            build.sh(f"clang++ -std=gnu++17 -O1 -g {san} -Wno-deprecated-declarations -I{build.REPO}/src -I{eng} {src} {' '.join(build.lib_objs(flav))} -lrapidcheck -lpthread -o {exe}")
            open(st, "w").write(dg)
        out[flav] = exe
    return out


def one(exe, flav, seed, nth, nops, rounds, limit=150, first=False):
    env = dict(os.environ)
    env["TSAN_OPTIONS"] = "halt_on_error=0:exitcode=66:report_signal_unsafe=0:history_size=4"
    env["ASAN_OPTIONS"] = "detect_leaks=0:abort_on_error=0:exitcode=99"
    env["UBSAN_OPTIONS"] = "halt_on_error=1:exitcode=98"
    env["VERIF_ROOT"] = ROOT
    env["LD_BIND_NOW"] = "1"
    try:
        r = subprocess.run([exe, str(seed), str(nth), str(nops), str(rounds)] + (["threads-first"] if first else []), env=env, stdout=subprocess.PIPE, stderr=subprocess.PIPE, text=True, errors="replace", timeout=limit)
    except subprocess.TimeoutExpired:
        return {"timeout": True}
    res = {"rc": r.returncode, "races": [], "json": None, "stderr_tail": ""}
    m = re.search(r"\{\"evaluations\".*\}", r.stdout)
    if m:
        try:
            res["json"] = json.loads(m.group(0))
        except Exception:
            pass
    err = r.stderr
    for blk in re.findall(r"WARNING: ThreadSanitizer: [^\n]*\n(?:.*\n){0,40}?SUMMARY: ThreadSanitizer: [^\n]*", err):
        if (build.REPO.rstrip("/") + "/src/") in blk:
            res["races"].append(blk[-1500:])
    if "ERROR: AddressSanitizer" in err or "runtime error:" in err:
        res["sanitizer"] = err[-1500:]
    return res


def run(prop, tier, seed, jobs):
    t0 = time.time()
    bins = build_bins()
    plans = [(2, 40, 6), (4, 40, 6), (8, 30, 5), (16, 20, 4)] if tier == "quick" else [(2, 60, 40), (4, 60, 40), (8, 50, 30), (16, 40, 30)]
    evals = 0; overlaps = 0; violations = []; inconclusive = []; samples = []; distinct = 0
    for flav in ("tsan", "asan"):
        for (nth, nops, rounds) in plans:
            if flav == "asan":
                rounds = max(2, rounds // 2)
            limit = 90 if tier == "quick" else 600
            res = one(bins[flav], flav, seed * 100 + nth, nth, nops, rounds, limit)
            if res.get("timeout"):
                # the single-threaded reference of the same scripts runs first in the same process, so a run that does not
                # finish is stuck in the concurrent phase; it is a violation only if it recurs
                again = sum(1 for k in range(2) if one(bins[flav], flav, seed * 100 + nth, nth, nops, rounds, limit).get("timeout"))
                if again == 2:
                    d = os.path.join(ROOT, "replays", "C18"); os.makedirs(d, exist_ok=True)
                    p = os.path.join(d, "%s-%d-%d-hang.json" % (flav, nth, seed))
                    json.dump({"property": "C18", "flavour": flav, "seed": seed * 100 + nth, "threads": nth, "ops": nops, "rounds": rounds, "symptom": "hang", "detail": "no result within %d s (normal: a few seconds), three times" % limit}, open(p, "w"), indent=1)
                    violations.append({"symptom": "hang", "detail": "%d threads: the concurrent phase did not finish within %d s in three runs (the single-threaded reference of the same scripts finished)" % (nth, limit), "replay": p})
                    break
                inconclusive.append("%s run with %d threads timed out once" % (flav, nth)); continue
            j = res.get("json")
            if j:
                evals += j["evaluations"]; overlaps += j["overlaps"]; distinct += j["evaluations"] if j["overlaps"] else 0
                samples.append("%s build, %d threads x %d create/assemble/destroy cycles x %d rounds: %d results compared with the single-threaded reference, %d mismatches, %d create/lookup overlaps observed" % (flav, nth, nops, rounds, j["evaluations"], j["mismatches"], j["overlaps"]))
            what = None
            if res["races"]:
                what = ("data-race", res["races"][0])
            elif res.get("sanitizer"):
                what = ("sanitizer", res["sanitizer"])
            elif j and j["mismatches"]:
                what = ("result-mismatch", j["first"])
            elif not j:
                what = ("abnormal-exit", "exit status %s: %s" % (res.get("rc"), res.get("stderr_tail", "")))
            if what:
                # confirm: the same configuration must fail again in at least one of three further runs
                again = 0
                for k in range(3):
                    r2 = one(bins[flav], flav, seed * 100 + nth, nth, nops, rounds)
                    if r2.get("races") or r2.get("sanitizer") or (r2.get("json") or {}).get("mismatches") or not r2.get("json"):
                        again += 1
                if again == 0:
                    inconclusive.append("a %s in the %s build with %d threads did not recur in three further runs" % (what[0], flav, nth)); continue
                d = os.path.join(ROOT, "replays", "C18"); os.makedirs(d, exist_ok=True)
                p = os.path.join(d, "%s-%d-%d.json" % (flav, nth, seed))
                json.dump({"property": "C18", "flavour": flav, "seed": seed * 100 + nth, "threads": nth, "ops": nops, "rounds": rounds, "symptom": what[0], "detail": what[1], "recurred": again}, open(p, "w"), indent=1)
                violations.append({"symptom": what[0], "detail": what[1], "replay": p})
    # fresh processes whose very first use of the library is concurrent (first asm_create_instance calls racing)
    nfresh = 400 if tier == "quick" else 4000
    fresh_bad = []; fresh_evals = 0
    for k in range(nfresh):
        flav = "tsan" if k % 50 == 0 else "asan" if k % 50 == 25 else "plain"   # mostly the uninstrumented build: its threads start closest together
        res = one(bins[flav], flav, seed * 1000 + k, 8 + (k % 9), 1 + (k % 2), 1, 60, True)
        j = res.get("json") if not res.get("timeout") else None
        if j:
            fresh_evals += j["evaluations"]
        if res.get("timeout") or res.get("races") or res.get("sanitizer") or (j and j["mismatches"]) or (not j and not res.get("timeout")):
            fresh_bad.append((flav, seed * 1000 + k, 8 + (k % 9), res))
    evals += fresh_evals
    samples.append("%d fresh processes (plain, TSan and ASan builds) whose first use of the library is 8-16 threads creating instances at once: %d results compared, %d processes with a report" % (nfresh, fresh_evals, len(fresh_bad)))
    # a result that differs from the single-threaded reference is conclusive on its own; timeouts / abnormal exits must recur
    hard = [x for x in fresh_bad if (x[3].get("json") or {}).get("mismatches") or x[3].get("races") or x[3].get("sanitizer")]
    if hard:
        fresh_bad = hard + [x for x in fresh_bad if x not in hard]
    if hard or len(fresh_bad) >= 2:
        flav, sd, nth, res = fresh_bad[0]
        det = (res.get("races") or [None])[0] or res.get("sanitizer") or ((res.get("json") or {}).get("first")) or "abnormal exit / timeout"
        d = os.path.join(ROOT, "replays", "C18"); os.makedirs(d, exist_ok=True)
        p = os.path.join(d, "fresh-%s-%d.json" % (flav, seed))
        json.dump({"property": "C18", "flavour": flav, "seed": sd, "threads": nth, "ops": 2, "rounds": 1, "first": True, "symptom": "first-use-concurrent", "detail": det, "processes_with_report": len(fresh_bad), "processes": nfresh}, open(p, "w"), indent=1)
        violations.append({"symptom": "first-use-concurrent", "detail": "%d of %d fresh processes: %s" % (len(fresh_bad), nfresh, str(det)[-300:]), "replay": p})
    if overlaps == 0:
        inconclusive.append("no create/lookup overlap between threads was observed")
    cov = {"evaluations": evals, "distinct_nontrivial": distinct, "samples": samples,
           "rule": "N in {2,4,8,16} threads, each running a private seeded script of create (internal or caller buffer) / option setters / chunk size / offset / assemble (plain, fitting, counting; valid and failing programs of 1-12 pool lines) / destroy cycles with sched_yield at API boundaries chosen by the script, released together by a barrier; repeated for several rounds with fresh scripts, once under ThreadSanitizer and once under ASan+UBSan. Non-trivial = the run observed at least one overlap of one thread's asm_create_instance (which rewrites the global index tables) with another thread's assemble call (which reads them), measured with atomic phase counters; every compared result of such a run counts. Every fourth operation slot lets all threads assemble one shared source file (behind 200 KB of comment) on their own instances.",
           "create_lookup_overlaps": overlaps, "violations_confirmed": violations, "inconclusive": inconclusive}
    ev = {"property_id": "C18", "tier": tier, "seed": seed, "level": "exploration", "coverage": cov,
          "assumptions": ["ThreadSanitizer's happens-before analysis (does not need the racy accesses to collide)", "the harness does not control the schedule inside the library"], "wall_s": round(time.time() - t0, 1), "violations": len(violations)}
    os.makedirs(os.path.join(ROOT, "evidence"), exist_ok=True)
    json.dump(ev, open(os.path.join(ROOT, "evidence", "C18.json"), "w"), indent=1)
    print("C18 %s seed=%d: %d per-thread results compared, %d create/lookup overlaps, %.0fs" % (tier, seed, evals, overlaps, time.time() - t0))
    if violations:
        for v in violations:
            print("  %s : %s" % (v["symptom"], v["detail"][-400:].replace("\n", " | ")))
            print("VIOLATION property=C18 replay=%s" % v["replay"])
        return 1
    if inconclusive:
        for i in inconclusive:
            print("INCONCLUSIVE: " + i)
        return 2
    return 0


def replay(prop, path):
    bins = build_bins()
    d = json.load(open(path))
    bad = 0
    for k in range(60 if d.get("first") else 5):
        r = one(bins[d["flavour"]], d["flavour"], d["seed"] + (k if d.get("first") else 0), d["threads"], d["ops"], d["rounds"], 150, bool(d.get("first")))
        if r.get("timeout") or r.get("races") or r.get("sanitizer") or (r.get("json") or {}).get("mismatches") or not r.get("json"):
            bad += 1
    print("%d runs of the recorded configuration fail" % bad)
    if bad:
        print("VIOLATION property=C18 replay=%s" % path); return 1
    print("replay passes"); return 0
