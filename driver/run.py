#!/usr/bin/env python3
"""check driver:  run.py <Cxx> quick|thorough      |  run.py replay <Cxx> <replay.json>

Rebuilds the library from /repo's working tree, runs the property's engine over all cores, aggregates the
workers' records, confirms every unexplained failure three times in isolation, writes
/verif/evidence/<id>.json and replay files, prints KNOWN-FINDING / VIOLATION lines.
Exit: 0 held (or only listed known findings), 1 violation, 2 inconclusive (machinery problem, never a verdict).
"""
import glob, hashlib, json, os, shutil, subprocess, sys, time

ROOT = os.path.dirname(os.path.dirname(os.path.abspath(__file__)))
sys.path.insert(0, os.path.join(ROOT, "driver"))
import build  # noqa: E402
import props  # noqa: E402

KNOWN = os.path.join(ROOT, "known_findings.txt")


def load_known():
    out = []
    if not os.path.exists(KNOWN):
        return out
    for line in open(KNOWN):
        line = line.rstrip("\n")
        if line.startswith("KNOWN:"):
            body = line[len("KNOWN:"):].strip()
            head, _, what = body.partition(" what=")
            d = dict(kv.split("=", 1) for kv in head.split())
            out.append({"property": d["property"], "id": d["id"], "require": d.get("require", "").split(","), "what": what})
    return out


def engine_env():
    e = dict(os.environ)
    e["VERIF_ROOT"] = ROOT
    e["VERIF_REPO_SRC"] = os.path.join(build.REPO, "src")
    # fresh heap memory is filled with 0x55 (ASan's default 0xbe happens to look like the library's default option byte)
    e["ASAN_OPTIONS"] = "detect_leaks=0:abort_on_error=0:allocator_may_return_null=1:exitcode=99:malloc_fill_byte=85:max_malloc_fill_size=65536"
    e["UBSAN_OPTIONS"] = "halt_on_error=1:exitcode=98:print_stacktrace=0"
    return e


def sweep_tmp():
    """scratch directories of engine workers that are gone (build/tmp/<letter><pid>) are removed: they only ever grow"""
    import re
    base = os.path.join(ROOT, "build", "tmp")
    try:
        names = os.listdir(base)
    except OSError:
        return
    for n in names:
        m = re.search(r"(\d+)$", n)
        if m and not os.path.exists("/proc/" + m.group(1)):
            shutil.rmtree(os.path.join(base, n), ignore_errors=True)


def run_engine(exe, prop, tier, seed, outdir, jobs):
    sweep_tmp()
    shutil.rmtree(outdir, ignore_errors=True)
    os.makedirs(outdir, exist_ok=True)
    cmd = [exe, "run", prop, "--tier", tier, "--seed", str(seed), "--jobs", str(jobs), "--out", outdir, "--known", KNOWN]
    r = subprocess.run(cmd, env=engine_env(), stdout=subprocess.PIPE, stderr=subprocess.PIPE, text=True, errors="replace")
    return r


def replay_once(exe, prop, caseid, timeout=120):
    try:
        r = subprocess.run([exe, "replay", prop, caseid], env=engine_env(), stdout=subprocess.PIPE, stderr=subprocess.STDOUT, text=True, errors="replace", timeout=timeout)
        return r.returncode, r.stdout
    except subprocess.TimeoutExpired:
        return 124, "timeout"
    except OSError as e:   # e.g. a case id too long for a command line: cannot be confirmed, reported as unreproduced
        return 0, "cannot start the replay: %s" % e


def aggregate(outdir):
    ev = 0
    classes = {}
    samples = []
    distinct = set()
    dsum = 0
    failures = []
    crashes = []
    aborted = []
    nsummaries = 0
    for f in sorted(glob.glob(os.path.join(outdir, "w*.jsonl"))):
        for line in open(f, errors="replace"):
            line = line.strip()
            if not line:
                continue
            try:
                j = json.loads(line)
            except Exception:
                aborted.append("unparsable worker record in " + f)
                continue
            t = j.get("type")
            if t == "summary":
                nsummaries += 1
                ev += j["evaluations"]
                for k, v in j["classes"].items():
                    classes[k] = classes.get(k, 0) + v
                samples += j["samples"][:4]
                if j.get("partitioned"):
                    dsum += j["distinct_count"]
                else:
                    distinct.update(j["distinct"])
            elif t == "failure":
                failures.append(j)
            elif t == "crash":
                crashes.append(j)
            elif t == "aborted":
                aborted.append(j.get("reason", "aborted"))
    mj = os.path.join(outdir, "merged.json")
    if os.path.exists(mj):
        dsum += json.load(open(mj)).get("distinct_nontrivial", 0)
    return dict(evaluations=ev, classes=classes, samples=samples, distinct=dsum + len(distinct), failures=failures,
                crashes=crashes, aborted=aborted, nsummaries=nsummaries)


def write_replay(prop, rec, seed, tier):
    d = os.path.join(ROOT, "replays", prop)
    os.makedirs(d, exist_ok=True)
    h = hashlib.sha1(rec["case"].encode()).hexdigest()[:16]
    p = os.path.join(d, h + ".json")
    json.dump({"property": prop, "seed": seed, "tier": tier, "case": rec["case"], "text": rec.get("text", ""),
               "symptom": rec.get("symptom", rec.get("how", "")), "detail": rec.get("detail", "")}, open(p, "w"), indent=1)
    return p


def main():
    if len(sys.argv) >= 4 and sys.argv[1] == "replay":
        prop, path = sys.argv[2], sys.argv[3]
        spec = props.PROPS[prop]
        if spec.get("custom_module"):
            import importlib
            return importlib.import_module(spec["custom_module"]).replay(prop, path)
        exe = build.build_engine_fi() if spec.get("fi") else build.build_engine()
        if spec.get("needs_asmline"):
            build.build_asmline()
        rec = json.load(open(path))
        rc, out = replay_once(exe, prop, rec["case"])
        sys.stdout.write(out)
        if rc != 0:
            print("VIOLATION property=%s replay=%s" % (prop, path))
            return 1
        print("replay passes")
        return 0

    prop, tier = sys.argv[1], (sys.argv[2] if len(sys.argv) > 2 else os.environ.get("VERIF_TIER", "quick"))
    seed = int(os.environ.get("VERIF_SEED", "1") or "1")
    jobs = int(os.environ.get("VERIF_JOBS", "16"))
    spec = props.PROPS[prop]
    t0 = time.time()
    if spec.get("custom_module"):
        import importlib
        return importlib.import_module(spec["custom_module"]).run(prop, tier, seed, jobs)
    exe = build.build_engine_fi() if spec.get("fi") else build.build_engine()
    if prop == "C17" and build.uninterposed():
        print("INCONCLUSIVE property=C17: the library calls %s, which the fault layer neither interposes nor knows to be pure (driver/build.py)" % ", ".join(build.uninterposed()))
        return 2
    if spec.get("needs_asmline"):
        build.build_asmline()
    outdir = os.path.join(ROOT, "build", "run", prop)
    r = run_engine(exe, prop, tier, seed, outdir, jobs)
    agg = aggregate(outdir)
    known = {k["id"]: k for k in load_known() if k["property"] == prop}

    inconclusive = []
    if r.returncode != 0:
        inconclusive.append("engine exited with status %d: %s" % (r.returncode, r.stderr[-400:]))
    if agg["aborted"]:
        inconclusive += agg["aborted"]
    if agg["nsummaries"] == 0:
        inconclusive.append("no worker finished")

    violations = []
    unreproduced = []
    known_hits = {}
    for k, v in agg["classes"].items():
        if k.startswith("known:"):
            known_hits[k[6:]] = v
    # confirm unexplained failures (deduplicated by symptom + form) three times in isolation
    seen = set()
    cands = [f for f in agg["failures"] if not f.get("known")]
    for c in agg["crashes"]:
        cands.append({"case": c["case"], "text": c["text"], "symptom": "crash", "detail": c["how"], "tags": ["sym:crash"], "crash": True})
    maxconfirm = 40
    for f in cands:
        key = (f["symptom"], tuple(t for t in f.get("tags", []) if t.startswith(("mn:", "form:", "group:"))))
        if key in seen:
            continue
        seen.add(key)
        if len(violations) >= maxconfirm:
            break
        fails = 0
        for _ in range(3):
            rc, out = replay_once(exe, prop, f["case"])
            if rc != 0:
                fails += 1
        if fails == 3:
            f["replay"] = write_replay(prop, f, seed, tier)
            violations.append(f)
        else:
            unreproduced.append({"case": f["case"], "text": f.get("text"), "reproduced": fails})

    nviol_total = agg["classes"].get("violations", 0) + len(agg["crashes"])
    rule = spec["rule"]
    cov = {
        "evaluations": agg["evaluations"],
        "distinct_nontrivial": agg["distinct"],
        "rule": rule,
        "samples": agg["samples"][:24],
        "exhaustive": bool(spec.get("exhaustive", False)),
        "classes": {k: v for k, v in sorted(agg["classes"].items()) if not k.startswith("known:")},
        "excluded_by_known_finding": known_hits,
        "violating_cases_total": nviol_total,
        "violations_confirmed": [{"text": v.get("text"), "symptom": v["symptom"], "detail": v.get("detail"), "replay": v["replay"]} for v in violations],
        "unreproduced": unreproduced,
        "inconclusive": inconclusive,
        "worker_crashes": len(agg["crashes"]),
    }
    # a class the property names must not be empty
    for need in spec.get("need_classes", []):
        if agg["classes"].get(need, 0) == 0:
            inconclusive.append("generator produced no case of required class " + need)
    evidence = {
        "property_id": prop, "tier": tier, "seed": seed, "level": spec["level"], "coverage": cov,
        "assumptions": spec.get("assumptions", []), "wall_s": round(time.time() - t0, 2), "violations": len(violations),
    }
    os.makedirs(os.path.join(ROOT, "evidence"), exist_ok=True)
    json.dump(evidence, open(os.path.join(ROOT, "evidence", prop + ".json"), "w"), indent=1)

    for kid, n in sorted(known_hits.items()):
        what = known.get(kid, {}).get("what", kid)
        print("KNOWN-FINDING: property=%s %s  [%s, %d cases excluded]" % (prop, what, kid, n))
    print("%s %s seed=%d: %d cases, %d distinct non-trivial, %d violating cases, %.1fs" %
          (prop, tier, seed, agg["evaluations"], agg["distinct"], nviol_total, time.time() - t0))
    if violations:
        for v in violations:
            print("  %s : %s : %s" % (v.get("text"), v["symptom"], (v.get("detail") or "")[:200]))
            print("VIOLATION property=%s replay=%s" % (prop, v["replay"]))
        return 1
    if inconclusive or unreproduced:
        for i in inconclusive:
            print("INCONCLUSIVE: " + i)
        for u in unreproduced:
            print("INCONCLUSIVE: failure did not reproduce in isolation: %s" % u.get("text"))
        return 2
    return 0


if __name__ == "__main__":
    sys.exit(main())
