// C20: asmline's outputs and exit status reflect the library result (differential CLI <-> in-process library).
#include "prog.hpp"
#include "props.hpp"
#include "cli.hpp"

using namespace prog;
using namespace cli;

static const Pool &pool(hz::Ctx &ctx) { static Pool p = build_pool(ctx.seed, 2); return p; }
// mode flags in command-line order
static const char *MODEFLAGS[] = {"--nasm-mov-imm", "--strict-mov-imm", "--smart-mov-imm", "--nasm-sib", "--strict-sib", "--nasm-sib-index-base-swap", "--strict-sib-index-base-swap", "--nasm-sib-no-base", "--strict-sib-no-base", "-n", "-t", "-s", "--nasm", "--strict", "--smart"};
struct CliCase { int longname = 0; /* length of the -o / -P file name (0 = short default) */ std::vector<int> modeflags; bool p = false, r = false, from_stdin = false; int outkind = 0 /*0 none 1 -P 2 -o 3 -P unwritable*/; int chunk = 0, brk = 0; std::vector<std::string> lines; int progkind = 0 /*0 pool 1 failing 2 executable*/; uint64_t retval = 0; bool final_newline = true; int sep = 0; /* line separator: 0 LF, 1 CRLF, 2 bare CR */ int rkind = 0; /* how the run is requested when r is set: 0 -r, 1 --return, 2 --rand, 3 -r=3, 4 --return=17, 5 -r --rand, 6 --rand -r */ };
static std::string ser20(const CliCase &c) { std::string s = "C20|"; for (size_t i = 0; i < c.modeflags.size(); i++) s += (i ? "," : "") + std::to_string(c.modeflags[i]); s += "|" + std::to_string(c.p) + "|" + std::to_string(c.r) + "|" + std::to_string(c.from_stdin) + "|" + std::to_string(c.outkind) + "|" + std::to_string(c.chunk) + "|" + std::to_string(c.brk) + "|" + std::to_string(c.progkind) + "|" + std::to_string(c.retval) + "|" + std::to_string(c.final_newline + 2 * (c.longname < 0 ? 40000 - c.longname : c.longname) + 100000 * c.sep + 1000000 * c.rkind); for (auto &l : c.lines) s += "|" + l; return s; }
static bool parse20(const std::string &s, CliCase &c) { auto f = split(s, '|'); if (f.size() < 11 || f[0] != "C20") return false; for (auto &x : split(f[1], ',')) if (!x.empty()) c.modeflags.push_back(atoi(x.c_str())); c.p = f[2] == "1"; c.r = f[3] == "1"; c.from_stdin = f[4] == "1"; c.outkind = atoi(f[5].c_str()); c.chunk = atoi(f[6].c_str()); c.brk = atoi(f[7].c_str()); c.progkind = atoi(f[8].c_str()); c.retval = strtoull(f[9].c_str(), nullptr, 10); { int v = atoi(f[10].c_str()); c.rkind = v / 1000000; v %= 1000000; c.sep = v / 100000; v %= 100000; c.final_newline = v & 1; c.longname = v / 2; if (c.longname > 40000) c.longname = 40000 - c.longname; } c.lines.assign(f.begin() + 11, f.end()); return true; }
static std::string cmdline(const CliCase &c) { std::string s = "asmline"; for (int m : c.modeflags) s += std::string(" ") + MODEFLAGS[m]; if (c.chunk) s += " -c " + std::to_string(c.chunk); if (c.brk) s += " -b " + std::to_string(c.brk); if (c.p) s += " -p"; if (c.r) { static const char *RK[] = {" -r", " --return", " --rand", " -r=3", " --return=17", " -r --rand", " --rand -r"}; s += RK[c.rkind % 7]; } if (c.outkind == 1) s += " -P out.raw"; if (c.outkind == 2) s += " -o outname"; if (c.outkind == 3) s += " -P /nonexistent-dir/x"; s += c.from_stdin ? " < prog.asm" : " prog.asm"; return s; }

struct CV { bool ok = true; std::string symptom, detail; };
static CV check20(const CliCase &c) {
  CV v; auto bad = [&](const std::string &s, const std::string &d) { v.ok = false; v.symptom = s; v.detail = d; return v; };
  const std::string NL = c.sep == 1 ? "\r\n" : c.sep == 2 ? "\r" : "\n";
  std::string text = join(c.lines, NL); if (!c.final_newline && !text.empty()) text.resize(text.size() - NL.size());
  // ---- in-process model: the option calls the flag documentation maps to, in the order main() applies them
  assemblyline_t a = asm_create_instance(nullptr, 0);
  int mov = -1, sib_all = -1, sib_swap = -1, sib_nb = -1;
  for (int m : c.modeflags) {
    switch (m) { case 0: mov = NASM; break; case 1: mov = STRICT; break; case 2: mov = SMART; break; case 3: sib_all = NASM; break; case 4: sib_all = STRICT; break; case 5: sib_swap = NASM; break; case 6: sib_swap = STRICT; break; case 7: sib_nb = NASM; break; case 8: sib_nb = STRICT; break;
      case 9: case 12: asm_set_all(a, NASM); break; case 10: case 13: asm_set_all(a, STRICT); break; case 11: case 14: asm_set_all(a, SMART); break; }
  }
  if (c.chunk) asm_set_chunk_size(a, c.chunk);
  if (mov >= 0) asm_mov_imm(a, (enum asm_opt)mov);
  if (sib_all >= 0) { asm_sib_no_base(a, (enum asm_opt)sib_all); asm_sib_index_base_swap(a, (enum asm_opt)sib_all); }
  if (sib_swap >= 0) asm_sib_index_base_swap(a, (enum asm_opt)sib_swap);
  if (sib_nb >= 0) asm_sib_no_base(a, (enum asm_opt)sib_nb);
  int want_rc, want_count = 0;
  { std::vector<char> w(text.begin(), text.end()); w.push_back(0); if (c.brk) want_rc = asm_assemble_string_counting_chunks(a, w.data(), c.brk, &want_count); else want_rc = asm_assemble_str(a, w.data()); }
  int L = asm_get_offset(a); std::vector<uint8_t> want; if (want_rc == 0) want.assign((uint8_t *)asm_get_code(a), (uint8_t *)asm_get_code(a) + L);
  asm_destroy_instance(a);
  // ---- the real tool
  std::string dir = tmpdir(), src = dir + "/prog.asm", praw = dir + "/out.raw", oname = dir + "/outname";
  if (c.longname < 0) { // characters that mean something to printf, the shell or option parsers (asmline -o refuses dots only)
    static const char *ODDN[] = {"out%x", "out%%d", "a b", "o%s%s%s%s", "100%", "name%n", "q'uote", "semi;colon", "d$ollar", "t\tab", "\xc3\xbcml", "%"}; std::string base = ODDN[(-c.longname - 1) % 12];
    praw = dir + "/" + base + "_raw"; oname = dir + "/" + base; }
  else if (c.longname) { // names longer than a path component allows are spread over nested directories (asmline -o refuses dots, not slashes)
    std::string base; int left = c.longname; std::string at = dir; while (left > 200) { std::string comp(180, 'd'); base += comp + "/"; at += "/" + comp; mkdir(at.c_str(), 0755); left -= 181; } base += std::string(left, 'n');
    praw = dir + "/" + base + "_raw"; oname = dir + "/" + base; }
  { FILE *f = fopen(src.c_str(), "wb"); if (!f) return bad("harness", "cannot write source"); if (!text.empty()) fwrite(text.data(), 1, text.size(), f); fclose(f); }
  unlink(praw.c_str()); unlink((oname + ".bin").c_str());
  // half of the runs find an older, longer output file in place: it has to be replaced, not patched
  bool stale = (hz::fnv(ser20(c)) >> 5) & 1;
  if (stale && (c.outkind == 1 || c.outkind == 2)) { std::string path = c.outkind == 1 ? praw : oname + ".bin"; FILE *f = fopen(path.c_str(), "wb"); if (f) { std::string junk(want.size() + 1 + hz::fnv(ser20(c)) % 300, (char)0xee); fwrite(junk.data(), 1, junk.size(), f); fclose(f); } }
  std::vector<std::string> av{asmline_path()}; for (int m : c.modeflags) av.push_back(MODEFLAGS[m]);
  if (c.chunk) { av.push_back("-c"); av.push_back(std::to_string(c.chunk)); } if (c.brk) { av.push_back("-b"); av.push_back(std::to_string(c.brk)); } if (c.p) av.push_back("-p"); if (c.r) { static const std::vector<std::vector<std::string>> RK = {{"-r"}, {"--return"}, {"--rand"}, {"-r=3"}, {"--return=17"}, {"-r", "--rand"}, {"--rand", "-r"}}; for (auto &x : RK[c.rkind % 7]) av.push_back(x); }
  auto rel = [&](const std::string &p) { return p.substr(dir.size() + 1); };
  if (c.outkind == 1) { av.push_back("-P"); av.push_back(rel(praw)); } if (c.outkind == 2) { av.push_back("-o"); av.push_back(rel(oname)); } if (c.outkind == 3) { av.push_back("-P"); av.push_back("/nonexistent-dir/x"); }
  if (!c.from_stdin) av.push_back(src);
  Spawned r = spawn(av, text, c.from_stdin, dir);
  if (!r.ok) return bad("harness", "cannot run " + av[0]);
  bool want_ok = want_rc == 0 && c.outkind != 3;
  if ((r.status == 0) != want_ok) return bad("exit-status", "exit status " + std::to_string(r.status) + " ; library assembly rc " + std::to_string(want_rc) + (c.outkind == 3 ? ", output path not writable" : ""));
  if (want_rc != 0) return v;   // nothing more to compare for a failing program
  // parse stdout: hex lines ("xx " per byte, optional trailing '|'), count line, "the value is" line
  std::vector<std::pair<size_t, bool>> rows;   // per printed hex row: number of bytes, ends with '|'
  std::vector<uint8_t> dumped; long count_seen = -1; bool have_value = false; uint64_t value = 0;
  { size_t p = 0; while (p <= r.out.size()) { size_t e = r.out.find('\n', p); if (e == std::string::npos) e = r.out.size(); std::string line = r.out.substr(p, e - p); p = e + 1;
      if (line.empty()) continue;
      if (line.compare(0, 15, "the value is 0x") == 0) { have_value = true; value = strtoull(line.c_str() + 15, nullptr, 16); continue; }
      bool ishex = line.size() >= 3; size_t q = 0; std::vector<uint8_t> bytes;
      while (ishex && q < line.size()) { if (line[q] == '|' && q + 1 == line.size()) { q++; break; } if (q + 2 < line.size() + 0 && isxdigit((unsigned char)line[q]) && isxdigit((unsigned char)line[q + 1]) && q + 2 < line.size() + 1 && line[q + 2] == ' ') { bytes.push_back((uint8_t)strtol(line.substr(q, 2).c_str(), nullptr, 16)); q += 3; } else ishex = false; }
      if (ishex) { dumped.insert(dumped.end(), bytes.begin(), bytes.end()); rows.push_back({bytes.size(), !line.empty() && line.back() == '|'}); continue; }
      if (isdigit((unsigned char)line[0])) { count_seen = atol(line.c_str()); continue; }
    } }
  if (c.p) {
    bool cumulative = c.from_stdin && c.chunk && !c.brk;   // the fitting dump is printed after every line of stdin: compare the final block
    if (cumulative) { if (dumped.size() < want.size() || !std::equal(want.begin(), want.end(), dumped.end() - want.size())) return bad("print", "-p: the last dumped block does not equal the code (" + std::to_string(dumped.size()) + " bytes printed, code " + std::to_string(want.size()) + ")"); }
    else if (dumped != want) return bad("print", "-p printed " + std::to_string(dumped.size()) + " bytes " + x86::hex(dumped.data(), std::min<size_t>(dumped.size(), 24)) + " ; the library produces " + std::to_string(want.size()) + " bytes " + x86::hex(want.data(), std::min<size_t>(want.size(), 24)));
    // "If -c is given, the chunks are delimited by '|' and each chunk is on one line" (tools/README.md): with FILE input every row but the last
    // holds exactly one chunk and ends with the bar, the last one holds the rest
    if (c.chunk >= 2 && !c.from_stdin && !c.brk) for (size_t i = 0; i < rows.size(); i++) {
      bool last = i + 1 == rows.size();
      if ((!last && (rows[i].first != (size_t)c.chunk || !rows[i].second)) || (last && (rows[i].first > (size_t)c.chunk || (rows[i].second && rows[i].first != (size_t)c.chunk))))
        return bad("print-rows", "-p -c " + std::to_string(c.chunk) + ": row " + std::to_string(i + 1) + " of " + std::to_string(rows.size()) + " holds " + std::to_string(rows[i].first) + " bytes" + (rows[i].second ? " and ends with '|'" : " and has no '|'") + " ; every row but the last is one chunk followed by '|'"); }
  } else if (!dumped.empty()) return bad("print", "hex output without -p");
  if (c.brk) { if (count_seen != want_count) return bad("count", "-b printed " + std::to_string(count_seen) + ", the library counts " + std::to_string(want_count)); }
  if (c.outkind == 1 || c.outkind == 2) { std::string got; std::string path = c.outkind == 1 ? praw : oname + ".bin"; if (!hz::read_file(path, got)) return bad("binary-output", "output file missing"); if (got.size() != want.size() || memcmp(got.data(), want.data(), want.size())) return bad("binary-output", "output file holds " + std::to_string(got.size()) + " bytes, the library produces " + std::to_string(want.size())); }
  if (c.r) { if (!have_value) return bad("run", "-r printed no value"); if (c.progkind == 2 && value != c.retval) { char b[100]; snprintf(b, sizeof b, "-r printed 0x%llx, the code returns 0x%llx", (unsigned long long)value, (unsigned long long)c.retval); return bad("run", b); } }
  return v;
}
static hz::Failure fail20(const CliCase &c, const CV &v) { hz::Failure f; f.caseid = ser20(c); f.text = cmdline(c) + "   (" + std::to_string(c.lines.size()) + " lines)"; f.symptom = v.symptom; f.detail = v.detail; f.tags = {"mn:asmline", "form:cli", "sym:" + v.symptom}; return f; }

void prop_c20(hz::Ctx &ctx) {
  const Pool &P = pool(ctx);
  auto gen_case = rc::gen::apply([&P](std::vector<int> flags, std::vector<int> idx, int progkind, int outs, int chunksel, int brksel, bool from_stdin, int seed, bool nl) {
    CliCase c; for (int f : flags) c.modeflags.push_back(f % 15); if (c.modeflags.size() > 6) c.modeflags.resize(6);
    c.progkind = progkind; hz::Rng r((uint64_t)seed);
    const std::vector<std::string> &src = progkind == 2 ? P.safe : P.lines; if (idx.empty()) idx.push_back(3);
    for (int i : idx) c.lines.push_back(src[(size_t)i % src.size()]);
    if (progkind == 1) c.lines.insert(c.lines.begin() + r.below(c.lines.size() + 1), P.bad[r.below(P.bad.size())]);
    if (progkind == 2) { c.retval = r.next(); char b[64]; snprintf(b, sizeof b, "mov rax, 0x%llx", (unsigned long long)c.retval); c.lines.push_back(b); c.lines.push_back("ret"); }
    // raw lines of 100 and more characters (long comments, wide indentation): stdin and FILE must still agree
    if (r.below(4) == 0) { size_t at = r.below(c.lines.size()); if (progkind != 2 || at + 2 < c.lines.size() || true) { int kind = (int)r.below(3); std::string &l = c.lines[at]; static const int LEN[] = {80, 150, 230, 250, 256, 300, 500, 1000, 4090, 9000}; size_t len = (size_t)LEN[r.below(10)] + r.below(40); if (kind == 0) l += " ; " + std::string(len, 'c'); else if (kind == 1) l = std::string(len, ' ') + l; else l += std::string(len, ' '); } }
    // lines that emit nothing (comment in column 0, indented comment, blank, label) at random positions
    if (r.below(3) == 0) { int k = 1 + (int)r.below(3); static const char *NOISE[] = {"; comment", ";", "  ; indented comment", "", "label:", "   ", ";;; x", "%define foo 1", "%macro m 0", "% x", "section .text", "global f", "\t%endmacro"}; for (int j = 0; j < k; j++) c.lines.insert(c.lines.begin() + r.below(c.lines.size() + (progkind == 2 ? -1 : 1)), NOISE[r.below(13)]); }
    c.longname = r.below(6) == 0 ? (r.below(3) == 0 ? 240 + (int)r.below(30) : r.below(2) ? 80 + (int)r.below(60) : 300 + (int)r.below(500)) : 0;
    c.sep = r.below(5) == 0 ? 1 + (int)r.below(2) : 0; c.rkind = r.below(2) ? (int)r.below(7) : 0; if (c.longname == 0 && r.below(8) == 0) c.longname = -1 - (int)r.below(12);
    c.p = outs & 1; c.r = progkind == 2 && (outs & 2); c.outkind = (outs >> 2) % 4; static const int CH[] = {0, 0, 0, 2, 3, 7, 16, 64, 256, 300}; c.chunk = CH[chunksel % 10];
    // chunk sizes of 256 and more need programs of several chunks: the (non-executed) program is repeated until it has some 1200 lines
    if (c.chunk >= 256 && progkind != 2 && !c.lines.empty()) { std::vector<std::string> one = c.lines; while (c.lines.size() < 1200 && c.lines.size() + one.size() <= 1400) c.lines.insert(c.lines.end(), one.begin(), one.end()); } static const int BK[] = {0, 0, 0, 2, 5, 16, 32, 4096}; c.brk = BK[brksel % 8];
    c.from_stdin = from_stdin; c.final_newline = nl; return c; },
    rc::gen::container<std::vector<int>>(range(0, 15)), rc::gen::container<std::vector<int>>(range(0, 1 << 20)), rc::gen::weightedElement<int>({{5, 0}, {2, 1}, {4, 2}}), range(0, 16), range(0, 10), range(0, 8), rc::gen::arbitrary<bool>(), range(0, 1 << 30), rc::gen::arbitrary<bool>());
  rc_rounds(ctx, "C20-cli", ctx.thorough() ? 600000 : 80000, 40, [&]() {
    CliCase c = *gen_case; std::string id = ser20(c); if (!ctx.begin(id, cmdline(c))) return;
    int groups = (c.modeflags.empty() ? 0 : 1) + (c.p || c.outkind ? 1 : 0) + (c.chunk || c.brk ? 1 : 0) + (c.r ? 1 : 0);
    for (auto &l : c.lines) if (l.size() >= 100) { ctx.cls("line:100+chars"); break; } if (c.longname > 0) ctx.cls("output:long-name"); if (c.longname < 0) ctx.cls("output:name-with-special-characters"); if (c.longname >= 250) ctx.cls("output:name-beyond-255"); if (c.sep) ctx.cls(c.sep == 1 ? "newline:crlf" : "newline:cr"); for (auto &l : c.lines) if (l.size() >= 255) { ctx.cls("line:255+chars"); break; } if ((c.outkind == 1 || c.outkind == 2) && ((hz::fnv(ser20(c)) >> 5) & 1)) ctx.cls("output:stale-file-in-place");
    for (auto &l : c.lines) if (l.empty() || l[0] == ';' || l.find(':') != std::string::npos || l.find_first_not_of(' ') == std::string::npos) { ctx.cls("program:has-non-code-lines"); break; }
    ctx.cls(c.from_stdin ? "source:stdin" : "source:file"); ctx.cls(std::string("program:") + (c.progkind == 0 ? "pool" : c.progkind == 1 ? "failing" : "executable")); if (c.p) ctx.cls("flag:-p"); if (c.r) ctx.cls("flag:-r"); if (c.r && c.rkind) ctx.cls("flag:run-variant"); if (c.chunk) ctx.cls("flag:-c"); if (c.brk) ctx.cls("flag:-b"); if (c.outkind == 1) ctx.cls("flag:-P"); if (c.outkind == 2) ctx.cls("flag:-o"); if (c.outkind == 3) ctx.cls("output:unwritable"); if (!c.modeflags.empty()) ctx.cls("flag:mode");
    if (groups >= 2 || c.progkind == 1) ctx.nontrivial(id);
    CV v = check20(c);
    if (ctx.want_sample()) ctx.put_sample(cmdline(c) + " with " + std::to_string(c.lines.size()) + " lines -> " + (v.ok ? "matches the library" : v.detail));
    if (!v.ok) { hz::Failure f = fail20(c, v); if (ctx.match_known(f.tags).empty()) { rc_report(f); RC_FAIL(v.detail); } else ctx.fail(f); }
  }, 200);
}

int replay_cli(const std::string &caseid) { CliCase c; if (!parse20(caseid, c)) return 2; CV v = check20(c); printf("%s\n%s", cmdline(c).c_str(), join(c.lines).c_str()); if (v.ok) { printf("OK\n"); return 0; } printf("FAIL %s : %s\n", v.symptom.c_str(), v.detail.c_str()); return 1; }
