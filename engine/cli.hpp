// Running the asmline binary built from the tree under test (used by C20 and by the command-line leg of C16).
#pragma once
#include "prog.hpp"
#include <fcntl.h>
#include <poll.h>
#include <spawn.h>
#include <sys/stat.h>
#include <sys/wait.h>
extern char **environ;
namespace cli {
static inline std::string asmline_path() { const char *e = getenv("VERIF_ASMLINE"); if (e) return e; const char *root = getenv("VERIF_ROOT"); return std::string(root ? root : "/verif") + "/build/plain/asmline"; }
static inline std::string tmpdir() { static std::string d; if (d.empty()) { const char *root = getenv("VERIF_ROOT"); std::string rb = std::string(root ? root : "/verif") + "/build"; d = rb + "/tmp"; mkdir(rb.c_str(), 0755); mkdir(d.c_str(), 0755); d += "/c" + std::to_string(getpid()); mkdir(d.c_str(), 0755); } return d; }

struct Spawned { int status = -1; std::string out; bool ok = false; };
static inline Spawned spawn(const std::vector<std::string> &argv, const std::string &stdin_data, bool use_stdin, const std::string &cwd) {
  Spawned r; int inp[2], outp[2]; if (pipe(inp) || pipe(outp)) return r;
  // keep the pipe ends away from the standard descriptors whatever the environment looks like
  for (int *fd : {&inp[0], &inp[1], &outp[0], &outp[1]}) { int hi = fcntl(*fd, F_DUPFD_CLOEXEC, 20); if (hi >= 0) { close(*fd); *fd = hi; } }
  posix_spawn_file_actions_t fa; posix_spawn_file_actions_init(&fa);
  posix_spawn_file_actions_adddup2(&fa, inp[0], 0); posix_spawn_file_actions_adddup2(&fa, outp[1], 1);
  posix_spawn_file_actions_addopen(&fa, 2, "/dev/null", O_WRONLY, 0);
  posix_spawn_file_actions_addchdir_np(&fa, cwd.c_str());   // output names are passed relative: asmline refuses -o names containing a dot, and the directory may
  posix_spawn_file_actions_addclose(&fa, inp[1]); posix_spawn_file_actions_addclose(&fa, outp[0]);
  std::vector<char *> av; for (auto &a : argv) av.push_back(const_cast<char *>(a.c_str())); av.push_back(nullptr);
  pid_t pid; int e = posix_spawn(&pid, av[0], &fa, nullptr, av.data(), environ);
  posix_spawn_file_actions_destroy(&fa); close(inp[0]); close(outp[1]);
  if (e) { close(inp[1]); close(outp[0]); return r; }
  // feed stdin and drain stdout without deadlock
  size_t woff = 0; bool wopen = true; if (!use_stdin || stdin_data.empty()) { close(inp[1]); wopen = false; }
  fcntl(outp[0], F_SETFL, O_NONBLOCK); if (wopen) fcntl(inp[1], F_SETFL, O_NONBLOCK);
  bool ropen = true; char buf[65536];
  while (ropen) {
    struct pollfd p[2]; int n = 0; p[n].fd = outp[0]; p[n].events = POLLIN; n++; if (wopen) { p[n].fd = inp[1]; p[n].events = POLLOUT; n++; }
    if (poll(p, n, 20000) <= 0) break;
    if (p[0].revents & (POLLIN | POLLHUP)) { ssize_t k = read(outp[0], buf, sizeof buf); if (k > 0) r.out.append(buf, k); else if (k == 0) ropen = false; }
    if (wopen && (p[1].revents & (POLLOUT | POLLERR | POLLHUP))) { ssize_t k = write(inp[1], stdin_data.data() + woff, stdin_data.size() - woff); if (k > 0) woff += k; if (k < 0 && errno != EAGAIN) { close(inp[1]); wopen = false; } if (woff >= stdin_data.size() && wopen) { close(inp[1]); wopen = false; } }
  }
  if (wopen) close(inp[1]); close(outp[0]);
  int st = 0; waitpid(pid, &st, 0); r.status = WIFEXITED(st) ? WEXITSTATUS(st) : 128 + (WIFSIGNALED(st) ? WTERMSIG(st) : 0); r.ok = true; return r;
}


// the bytes asmline -p prints for `text` under the option combination (mode flags), read from stdin or from a file; status = exit status
static inline std::vector<uint8_t> printed_bytes(const std::string &text, int combo, bool from_stdin, int *status) {
  spec::Opts o = spec::combo_opts(combo); std::string dir = tmpdir(), src = dir + "/leg.asm";
  std::vector<std::string> av{asmline_path(), o.mov == 0 ? "--strict-mov-imm" : o.mov == 1 ? "--nasm-mov-imm" : "--smart-mov-imm", o.swap ? "--nasm-sib-index-base-swap" : "--strict-sib-index-base-swap", o.nobase ? "--nasm-sib-no-base" : "--strict-sib-no-base", "-p"};
  if (!from_stdin) { FILE *f = fopen(src.c_str(), "wb"); if (f) { if (!text.empty()) fwrite(text.data(), 1, text.size(), f); fclose(f); } av.push_back(src); }
  Spawned r = spawn(av, text, from_stdin, dir); if (status) *status = r.ok ? r.status : -1;
  std::vector<uint8_t> out; size_t p = 0;
  while (p < r.out.size()) { size_t e = r.out.find('\n', p); if (e == std::string::npos) e = r.out.size(); std::string line = r.out.substr(p, e - p); p = e + 1; size_t q = 0; std::vector<uint8_t> bytes; bool ishex = line.size() >= 3;
    while (ishex && q < line.size()) { if (q + 2 < line.size() + 1 && isxdigit((unsigned char)line[q]) && isxdigit((unsigned char)line[q + 1]) && (q + 2 == line.size() || line[q + 2] == ' ')) { bytes.push_back((uint8_t)strtol(line.substr(q, 2).c_str(), nullptr, 16)); q += 3; } else ishex = false; }
    if (ishex) out.insert(out.end(), bytes.begin(), bytes.end()); }
  return out;
}
} // namespace cli
