#pragma once
#include "harness.hpp"
void prop_c01(hz::Ctx &);
void prop_c02(hz::Ctx &);
void prop_c03(hz::Ctx &);
void prop_c04(hz::Ctx &);
void prop_c05(hz::Ctx &);
int replay_line(const std::string &prop, const std::string &caseid);
namespace ln { struct LineCase; }
void run_fitted_line(hz::Ctx &ctx, const ln::LineCase &c, bool nested);   // re-encoding behind chunk-fitting padding (C01-C05, C11)
void prop_c10(hz::Ctx &);
int replay_reject(const std::string &caseid);
void prop_c11(hz::Ctx &);
void prop_c16(hz::Ctx &);
int replay_modes(const std::string &prop, const std::string &caseid);
void prop_c06(hz::Ctx &);
void prop_c12(hz::Ctx &);
void prop_c13(hz::Ctx &);
void prop_c14(hz::Ctx &);
void prop_c15(hz::Ctx &);
int replay_hist(const std::string &prop, const std::string &caseid, uint64_t seed);
void prop_c07(hz::Ctx &);
void prop_c08(hz::Ctx &);
int replay_buf(const std::string &caseid);
void prop_c09_grammar(hz::Ctx &);
int replay_fz(const std::string &caseid);
void prop_c17(hz::Ctx &);
void prop_c19(hz::Ctx &);
int replay_fi(const std::string &caseid);
void prop_c20(hz::Ctx &);
int replay_cli(const std::string &caseid);
int selftest_dump(uint64_t seed, int per_form);
int selftest_check(const char *path);
