// Enumerators and seeded generators for line-level cases (C01-C05, reused by
// C10, C11, C16 and the program generators).
#pragma once
#include "lines.hpp"

namespace gen {
using namespace ln;
using Sink = std::function<void(const LineCase &)>;

struct FormRef { const Form *f; std::string mn; int size; std::vector<std::string> slots; };

static inline std::vector<FormRef> form_refs(const std::function<bool(const Form &)> &pred) {
  std::vector<FormRef> v;
  for (int i = 0; i < NFORMS; i++) {
    const Form &f = FORMS[i]; if (!pred(f)) continue;
    std::string sizes = f.sizes;
    for (auto &mn : split(f.mns, ' ')) for (char sc : sizes) {
      FormRef r; r.f = &f; r.mn = mn; r.size = sizebits(sc); r.slots = split(f.pat, ','); v.push_back(r);
    }
  }
  return v;
}
static inline bool reg_only(const Form &f) { for (auto &s : split(f.pat, ',')) if (is_mem_slot(s) || is_imm_slot(s) || s == "REL") return false; return true; }
static inline bool has_mem(const Form &f) { for (auto &s : split(f.pat, ',')) if (is_mem_slot(s)) return true; return false; }
static inline bool has_imm(const Form &f) { for (auto &s : split(f.pat, ',')) if (is_imm_slot(s)) return true; return false; }
static inline bool is_vector_cls(const std::string &c) { return c == "sse" || c == "mmx" || c == "avx" || c == "bmi" || c == "adx"; }

static inline Intent base_intent(const FormRef &r) { Intent it; it.mn = r.mn; it.form = r.f->pat; it.size = r.size; it.cls = r.f->cls; if (it.form == "FARM") it.far = true; return it; }

// full cartesian product over per-slot candidate lists
static inline void product(const FormRef &r, const std::vector<std::vector<WOpd>> &cands, const std::function<void(Intent &)> &cb) {
  size_t n = cands.size(); std::vector<size_t> ix(n, 0);
  for (auto &c : cands) if (c.empty()) return;
  for (;;) {
    Intent it = base_intent(r);
    for (size_t k = 0; k < n; k++) it.ops.push_back(cands[k][ix[k]]);
    if (encodable(it)) cb(it);
    size_t k = 0; while (k < n) { if (++ix[k] < cands[k].size()) break; ix[k] = 0; k++; }
    if (k == n) break;
    if (n == 0) break;
  }
}

// digits a zero-padded spelling gets: more than the number has (decimal "010" is ten, hex "0x010" is sixteen)
static inline int ndigits(uint64_t mag, bool hex) { char b[40]; snprintf(b, sizeof b, hex ? "%llx" : "%llu", (unsigned long long)mag); return (int)strlen(b); }
static inline int pad_for(uint64_t mag, bool hex, hz::Rng &rng) { return ndigits(mag, hex) + 1 + (int)rng.below(3); }

// ---------- memory shapes ----------
struct ShapeOpts { bool all_regs = true; bool spellings = true; bool rsp_index = true; int disp_level = 2; bool a32 = true; };
static inline std::vector<int64_t> disp_values(int level) {
  if (level <= 0) return {1, -1, 0x80, -0x81};
  if (level == 1) return {0, 1, 0x7f, 0x80, -1, -0x80, -0x81, 0x7fffffff, -0x80000000LL};
  return {0, 1, 0x7f, 0x80, 0x81, 0xff, 0x100, 0x7fffffff, -1, -0x7f, -0x80, -0x81, -0xff, -0x100, -0x7fffffff, -0x80000000LL};
}
// enumerate written address shapes; `cb(m)` receives shapes without width/keyword
static inline void shapes(const ShapeOpts &so, hz::Rng &rng, const std::function<void(const WMem &)> &cb) {
  std::vector<int> regs; for (int r = 0; r < 16; r++) regs.push_back(r);
  if (!so.all_regs) regs = {0, 1, 4, 5, 8, 12, 13, 15};
  auto disps = disp_values(so.disp_level);
  for (int asize : {64, 32}) {
    if (asize == 32 && !so.a32) continue;
    for (int base = -1; base < 16; base++) {
      if (base >= 0 && std::find(regs.begin(), regs.end(), base) == regs.end()) continue;
      for (int index = -1; index < 16; index++) {
        if (index >= 0 && std::find(regs.begin(), regs.end(), index) == regs.end()) continue;
        struct Sp { int scale; bool written, first; };
        std::vector<Sp> sps;
        if (index < 0) sps.push_back({1, false, false});
        else if (index == 4) { if (!so.rsp_index || base < 0 || base == 4) continue; sps.push_back({1, false, false}); }
        else if (base < 0) { for (int s : {1, 2, 4, 8}) sps.push_back({s, true, true}); }
        else { sps.push_back({1, false, false}); if (so.spellings) { sps.push_back({1, true, false}); sps.push_back({1, true, true}); }
               for (int s : {2, 4, 8}) { sps.push_back({s, true, false}); if (so.spellings) sps.push_back({s, true, true}); } }
        for (auto &sp : sps) {
          // displacement: absent (needs a register), the boundary list, one random value
          std::vector<std::pair<bool, int64_t>> ds;
          if (base >= 0 || index >= 0) ds.push_back({false, 0});
          for (auto d : disps) ds.push_back({true, d});
          int64_t rd = (int64_t)(int32_t)rng.next(); ds.push_back({true, rd});
          for (auto &d : ds) {
            WMem m; m.asize = (base < 0 && index < 0) ? 64 : asize; if (base < 0 && index < 0 && asize == 32) continue;
            m.base = base; m.index = index; m.scale = sp.scale; m.scale_written = sp.written; m.scale_first = sp.first;
            m.has_disp = d.first; m.disp = d.second; m.disp_hex = !(so.spellings && (rng.next() & 3) == 0);
            // leading zeros (hex and decimal), more often where spellings are the subject
            if (m.has_disp && rng.below(so.spellings ? 4 : 10) == 0) { if (!so.spellings && rng.coin()) m.disp_hex = false; m.disp_pad = pad_for((uint64_t)(m.disp < 0 ? -m.disp : m.disp), m.disp_hex, rng); if (m.disp_hex && rng.below(4) == 0) m.disp_pad = 15 + (int)rng.below(6); /* 15..20 hex digits */ }
            cb(m);
          }
        }
      }
    }
  }
}

// a compact list of shapes for crossing with large register products
static inline std::vector<WMem> shape_list(const ShapeOpts &so, uint64_t seed) {
  std::vector<WMem> v; hz::Rng rng(seed); shapes(so, rng, [&](const WMem &m) { v.push_back(m); }); return v;
}

// ---------- immediates ----------
struct ImmSp { uint64_t v; bool neg; bool hex; int pad; };
// all spellings of the values representable under `policy` at width w
static inline std::vector<ImmSp> imm_spellings(int w, char policy, hz::Rng &rng, int nrandom, bool many_spellings) {
  std::vector<ImmSp> out;
  std::vector<uint64_t> vals = boundary_values();
  for (int i = 0; i < nrandom; i++) { int bits = 1 + (int)rng.below(64); uint64_t v = rng.next() >> (64 - bits); vals.push_back(rng.coin() ? v : (uint64_t)(0 - v)); }
  std::set<std::string> seen;
  for (uint64_t v : vals) {
    // the same 64-bit pattern can be written positively (unsigned magnitude) or negated
    for (int neg = 0; neg < 2; neg++) {
      if (neg && (int64_t)v >= 0) continue;            // "-x" spelling only for negative numbers
      uint64_t pattern = v;
      bool isneg = neg == 1;
      if (!isneg) {
        // positive spelling of a pattern: representable iff it is within the unsigned/signed range of the policy
        if (!representable(pattern, false, w, policy)) {
          // at w=64 a pattern >= 2^63 written in hex denotes the sign-extended imm32 value (e.g. 0xffffffffffffff80)
          if (!(w == 64 && (policy == 'S' || policy == 'P') && (int64_t)pattern < 0 && (int64_t)pattern >= -(int64_t)0x80000000LL)) continue;
        }
      } else if (!representable(pattern, true, w, policy)) continue;
      for (int hex = 0; hex < 2; hex++) {
        if (!many_spellings && hex == 0 && (rng.next() & 1)) continue;
        ImmSp s{pattern, isneg, hex == 1, 0};
        std::string key = numtext(s.v, s.neg, s.hex, 0);
        if (seen.insert(key).second) out.push_back(s);
        if (hex && many_spellings && !isneg) { ImmSp p = s; p.pad = (w == 64 ? 16 : w / 4); std::string k2 = numtext(p.v, p.neg, p.hex, p.pad); if (seen.insert(k2).second) out.push_back(p); }
        // leading zeros: decimal stays decimal ("010" is ten), signed spellings too
        // more than 16 hex digits (leading zeros), both signs: only where no mode gives the digit count a meaning (everything but mov r64, imm)
        if (hex && !(policy == 'M' && w == 64) && rng.below(many_spellings ? 3 : 12) == 0) { ImmSp p = s; static const int LP[] = {17, 18, 19, 20, 40, 62, 63, 64, 65, 70}; p.pad = LP[rng.below(10)]; /* up to what fits a 99-character line behind a short instruction */ std::string k2 = numtext(p.v, p.neg, p.hex, p.pad); if (seen.insert(k2).second) out.push_back(p); }
        if ((many_spellings && (!hex || isneg)) || (!many_spellings && rng.below(4) == 0)) { ImmSp p = s; uint64_t mag = isneg ? (uint64_t)(0 - pattern) : pattern; p.pad = pad_for(mag, p.hex, rng); if (p.hex && p.pad > 15) p.pad = 15; std::string k2 = numtext(p.v, p.neg, p.hex, p.pad); if (seen.insert(k2).second) out.push_back(p); }
      }
    }
  }
  return out;
}

// ---------- relative displacements ----------
static inline std::vector<int64_t> rel_values(hz::Rng &rng, int nrandom) {
  std::vector<int64_t> v;
  for (int d = -129; d <= 128; d++) v.push_back(d);
  const int64_t B[] = {0x7ffe, 0x7fff, 0x8000, 0x8001, 0xffff, 0x10000, 0x7ffffffe, 0x7fffffff};
  for (auto b : B) { v.push_back(b); v.push_back(-b); }
  v.push_back(-0x80000000LL); v.push_back(-0x7fffffffLL); v.push_back(0xff); v.push_back(-0xff); v.push_back(0x100); v.push_back(-0x100);
  // every power of two with its neighbours, and every 32-bit pattern whose bytes are 00, 01, 7f, 80 or ff (a field that is emitted
  // byte-wise, or whose length is computed from its significant bytes, goes wrong at such values)
  for (int k = 8; k <= 31; k++) for (int64_t d : {-2LL, -1LL, 0LL, 1LL}) { int64_t x = ((int64_t)1 << k) + d; if (x <= 0x7fffffffLL) v.push_back(x); if (x <= 0x80000000LL) v.push_back(-x); }
  { static const int64_t BY[] = {0x00, 0x01, 0x7f, 0x80, 0xff};
    for (int a = 0; a < 5; a++) for (int b = 0; b < 5; b++) for (int c = 0; c < 5; c++) for (int e = 0; e < 5; e++) { int64_t x = (int64_t)(int32_t)(uint32_t)((BY[a] << 24) | (BY[b] << 16) | (BY[c] << 8) | BY[e]); v.push_back(x); if (x > 0 && x != 0x80000000LL) v.push_back(-x); } }
  std::sort(v.begin(), v.end()); v.erase(std::unique(v.begin(), v.end()), v.end());
  for (int i = 0; i < nrandom; i++) { int bits = 1 + (int)rng.below(31); int64_t x = (int64_t)(rng.next() >> (64 - bits)); v.push_back(rng.coin() ? x : -x); }
  return v;
}

} // namespace gen
