// Oracle self-test support: the reference decoder + form table are validated against nasm (and objdump) by
// tools/selftest.py.  `selftest-dump` prints generated intents in nasm-compatible syntax, `selftest-check`
// decodes what nasm produced for them and compares it with the intent - exactly the comparison the property
// checks apply to AssemblyLine's output.
#include "gen.hpp"
#include "props.hpp"
using namespace gen;

int selftest_dump(uint64_t seed, int per_form) {
  hz::Rng rng(seed ^ 0x5e1f);
  ShapeOpts so; so.all_regs = true; so.disp_level = 2; so.spellings = true;
  std::vector<WMem> sh = shape_list(so, seed + 77);
  auto refs = form_refs([](const Form &f) { std::string p = f.pat; return p != "REL" && p != "FARM"; });
  for (auto &r : refs) {
    if (r.mn.size() > 3 && r.mn.compare(0, 3, "nop") == 0) continue; // nopN is AssemblyLine syntax
    if (r.mn == "movd" && (std::string(r.f->pat) == "X,R64" || std::string(r.f->pat) == "R64,X")) continue; // this nasm wants movq for a 64-bit register; the bytes are the same instruction
    for (int rep = 0; rep < per_form; rep++) {
      Intent it = base_intent(r); bool bad = false;
      for (auto &s : r.slots) {
        if (is_mem_slot(s)) it.ops.push_back(mem_for_slot(sh[rng.below(sh.size())], s, r.size, r.f->kw == KW_NONE ? KW_NONE : KW_REQ, true));
        else if (is_imm_slot(s)) { char pol = imm_policy(s); int w = s == "I8" ? 8 : (s == "IPUSH" ? 64 : r.size); auto sps = imm_spellings(w, pol, rng, 3, true); if (sps.empty()) { bad = true; break; } auto &sp = sps[rng.below(sps.size())]; it.ops.push_back(wimm(sp.v, imm_space(s, r.size), sp.hex, sp.neg, sp.pad)); }
        else { auto c = reg_candidates(s, r.size); if (c.empty()) { bad = true; break; } it.ops.push_back(c[rng.below(c.size())]); }
      }
      if (bad || !encodable(it)) continue;
      LineCase c{it, DEFAULT_COMBO};
      std::string t = text(it);
      // nasm spells the size of vector memory operands itself; AssemblyLine's "[1*reg]" etc. are valid nasm too
      printf("%s\t%s\n", serialize(c).c_str(), t.c_str());
    }
  }
  return 0;
}

int selftest_check(const char *path) {
  std::string all; if (!hz::read_file(path, all)) return 2;
  long n = 0, bad = 0; size_t p = 0;
  while (p < all.size()) {
    size_t e = all.find('\n', p); if (e == std::string::npos) e = all.size(); std::string line = all.substr(p, e - p); p = e + 1;
    size_t tab = line.find('\t'); if (tab == std::string::npos) continue;
    LineCase c; if (!parse_case(line.substr(0, tab), c)) { printf("UNPARSABLE %s\n", line.c_str()); bad++; continue; }
    std::string hexs = line.substr(tab + 1); std::vector<uint8_t> b; for (size_t i = 0; i + 1 < hexs.size(); i += 2) b.push_back((uint8_t)strtol(hexs.substr(i, 2).c_str(), nullptr, 16));
    n++;
    x86::Insn g = x86::decode(b.data(), b.size());
    auto want = expect(c.it, combo_opts(c.combo)); std::string why; bool ok = false;
    if (g.ok && (size_t)g.len == b.size()) for (auto &w : want) if (x86::same_insn(w, g, &why)) ok = true;
    if (!ok) { bad++; if (bad <= 40) printf("MISMATCH %s | nasm bytes %s decode to '%s' (len %d) | expected '%s' | %s\n", text(c.it).c_str(), x86::hex(b.data(), b.size()).c_str(), x86::to_string(g).c_str(), g.len, x86::to_string(want[0]).c_str(), why.c_str()); }
  }
  printf("selftest: %ld nasm encodings decoded, %ld disagree with the intent\n", n, bad);
  return bad ? 1 : 0;
}
