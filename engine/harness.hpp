// Process fan-out, crash attribution, counters, known-findings matching and the
// JSON result record shared by all property checks.
#pragma once
#include <algorithm>
#include <cerrno>
#include <csignal>
#include <cstdint>
#include <cstdio>
#include <cstdlib>
#include <cstring>
#include <fcntl.h>
#include <functional>
#include <map>
#include <set>
#include <string>
#include <sys/mman.h>
#include <sys/stat.h>
#include <sys/wait.h>
#include <unistd.h>
#include <unordered_set>
#include <vector>

namespace hz {

// ---------- tiny JSON ----------
static inline std::string jesc(const std::string &s) {
  std::string o; char b[8];
  for (unsigned char c : s) {
    if (c == '"') o += "\\\""; else if (c == '\\') o += "\\\\"; else if (c == '\n') o += "\\n"; else if (c == '\r') o += "\\r"; else if (c == '\t') o += "\\t";
    else if (c < 0x20 || c >= 0x7f) { snprintf(b, sizeof b, "\\u%04x", c); o += b; } else o += (char)c;
  }
  return o;
}
static inline std::string jstr(const std::string &s) { return "\"" + jesc(s) + "\""; }

struct JVal {
  enum T { NUL, BOOL, NUM, STR, ARR, OBJ } t = NUL;
  bool b = false; double num = 0; std::string s; std::vector<JVal> a; std::vector<std::pair<std::string, JVal>> o;
  const JVal *get(const std::string &k) const { for (auto &p : o) if (p.first == k) return &p.second; return nullptr; }
  std::string str(const std::string &k, const std::string &d = "") const { auto v = get(k); return v && v->t == STR ? v->s : d; }
  long long integer(const std::string &k, long long d = 0) const { auto v = get(k); return v && v->t == NUM ? (long long)v->num : d; }
};
struct JParser {
  const std::string &s; size_t i = 0; bool ok = true;
  explicit JParser(const std::string &x) : s(x) {}
  void ws() { while (i < s.size() && (s[i] == ' ' || s[i] == '\n' || s[i] == '\t' || s[i] == '\r')) i++; }
  JVal parse() {
    ws(); JVal v; if (i >= s.size()) { ok = false; return v; }
    char c = s[i];
    if (c == '{') { v.t = JVal::OBJ; i++; ws(); if (i < s.size() && s[i] == '}') { i++; return v; }
      for (;;) { ws(); JVal k = parse(); ws(); if (i >= s.size() || s[i] != ':') { ok = false; return v; } i++; JVal x = parse(); v.o.push_back({k.s, x}); ws(); if (i < s.size() && s[i] == ',') { i++; continue; } if (i < s.size() && s[i] == '}') { i++; return v; } ok = false; return v; } }
    if (c == '[') { v.t = JVal::ARR; i++; ws(); if (i < s.size() && s[i] == ']') { i++; return v; }
      for (;;) { JVal x = parse(); v.a.push_back(x); ws(); if (i < s.size() && s[i] == ',') { i++; continue; } if (i < s.size() && s[i] == ']') { i++; return v; } ok = false; return v; } }
    if (c == '"') { v.t = JVal::STR; i++;
      while (i < s.size() && s[i] != '"') { if (s[i] == '\\' && i + 1 < s.size()) { i++; char e = s[i];
            if (e == 'n') v.s += '\n'; else if (e == 't') v.s += '\t'; else if (e == 'r') v.s += '\r';
            else if (e == 'u' && i + 4 < s.size()) { v.s += (char)strtol(s.substr(i + 1, 4).c_str(), nullptr, 16); i += 4; }
            else v.s += e; } else v.s += s[i]; i++; }
      i++; return v; }
    if (!strncmp(s.c_str() + i, "true", 4)) { v.t = JVal::BOOL; v.b = true; i += 4; return v; }
    if (!strncmp(s.c_str() + i, "false", 5)) { v.t = JVal::BOOL; i += 5; return v; }
    if (!strncmp(s.c_str() + i, "null", 4)) { i += 4; return v; }
    char *e; v.t = JVal::NUM; v.num = strtod(s.c_str() + i, &e); if (e == s.c_str() + i) { ok = false; return v; } i = e - s.c_str(); return v;
  }
};
static inline bool read_file(const std::string &path, std::string &out) {
  FILE *f = fopen(path.c_str(), "rb"); if (!f) return false; char buf[65536]; size_t n; out.clear();
  while ((n = fread(buf, 1, sizeof buf, f)) > 0) out.append(buf, n); fclose(f); return true;
}

// ---------- known findings ----------
struct KnownFinding { std::string property, id, what, status; std::vector<std::string> require; };
static inline std::vector<KnownFinding> load_known(const std::string &path) {
  // text format, one finding per line:
  //   KNOWN: property=C02 id=slug require=tag,tag,... what=free text
  //   fixed: property=C09 <commit> <what failed>          (suppresses nothing)
  std::vector<KnownFinding> v; std::string all; if (!read_file(path, all)) return v;
  size_t p = 0;
  while (p < all.size()) { size_t e = all.find('\n', p); if (e == std::string::npos) e = all.size(); std::string line = all.substr(p, e - p); p = e + 1;
    if (line.compare(0, 6, "KNOWN:") != 0) continue;
    KnownFinding k; k.status = "open";
    size_t w = line.find(" what="); std::string head = line.substr(6, w == std::string::npos ? std::string::npos : w - 6); if (w != std::string::npos) k.what = line.substr(w + 6);
    size_t q = 0;
    while (q < head.size()) { while (q < head.size() && head[q] == ' ') q++; size_t r = head.find(' ', q); if (r == std::string::npos) r = head.size(); std::string kv = head.substr(q, r - q); q = r;
      size_t eq = kv.find('='); if (eq == std::string::npos) continue; std::string key = kv.substr(0, eq), val = kv.substr(eq + 1);
      if (key == "property") k.property = val; else if (key == "id") k.id = val;
      else if (key == "require") { size_t a = 0; while (a <= val.size()) { size_t c = val.find(',', a); if (c == std::string::npos) c = val.size(); if (c > a) k.require.push_back(val.substr(a, c - a)); a = c + 1; } } }
    if (k.property.empty() || k.id.empty() || k.require.empty()) { fprintf(stderr, "known_findings: bad line: %s\n", line.c_str()); exit(3); }
    v.push_back(k); }
  return v;
}

// ---------- deterministic PRNG (splitmix64) ----------
struct Rng { uint64_t s; explicit Rng(uint64_t seed) : s(seed) {} uint64_t next() { uint64_t z = (s += 0x9e3779b97f4a7c15ULL); z = (z ^ (z >> 30)) * 0xbf58476d1ce4e5b9ULL; z = (z ^ (z >> 27)) * 0x94d049bb133111ebULL; return z ^ (z >> 31); }
  uint64_t below(uint64_t n) { return n ? next() % n : 0; } bool coin() { return next() & 1; } };
static inline uint64_t fnv(const std::string &s) { uint64_t h = 1469598103934665603ULL; for (unsigned char c : s) { h ^= c; h *= 1099511628211ULL; } return h; }

// ---------- failure record ----------
struct Failure {
  std::string caseid;            // re-executable serialized case
  std::string text;              // human readable (line / history)
  std::string symptom;           // short symptom code
  std::string detail;            // expected vs observed
  std::vector<std::string> tags; // for known-finding matching
  std::string known;             // id of the matching open known finding ("" = none)
};

struct Ctx;
using PropFn = std::function<void(Ctx &)>;

struct Ctx {
  std::string prop; std::string tier = "quick"; uint64_t seed = 1; int shard = 0, nshards = 1;
  long long skip_until = 0;  // case indices below this are not executed (resume after a crash)
  long long index = 0;       // running case index inside this shard
  char *inflight = nullptr;  // shared slot describing the case being executed
  unsigned watchdog_s = 300;  // per-case limit inside a worker
  FILE *out = nullptr;
  std::vector<KnownFinding> known;
  long long evaluations = 0; long long failures_written = 0; std::map<std::string, int> fail_keys;
  std::unordered_set<uint64_t> distinct;
  std::map<std::string, long long> classes;
  std::vector<std::string> samples; long long sample_seen = 0; Rng srng{12345};
  bool thorough() const { return tier == "thorough"; }

  // returns false if this case must be skipped (belongs to another shard / before resume point)
  long long gindex = 0;
  // cheap index-based sharding, to be called before a case is materialised
  bool take() { return nshards <= 1 || (gindex++ % nshards) == shard; }
  std::string hashfile;      // distinct non-trivial hashes are dumped here and united by the parent
  bool partitioned = false;  // cases are assigned to shards by hash => per-shard distinct sets are disjoint
  // hash-sharded variant: the same case always lands in the same shard
  bool begin_h(const std::string &caseid, const std::string &text) {
    partitioned = true;
    if (nshards > 1 && (fnv(caseid) >> 7) % (uint64_t)nshards != (uint64_t)shard) return false;
    return begin(caseid, text);
  }
  bool begin(const std::string &caseid, const std::string &text) {
    long long my = index++;
    if (my < skip_until) return false;
    if (inflight) { snprintf(inflight, 4096, "%lld\n%s\n%s", my, caseid.c_str(), text.c_str()); alarm(watchdog_s); /* a case that does not come back ends the worker (SIGALRM) and is attributed like a crash */ }
    evaluations++;
    return true;
  }
  void cls(const std::string &c) { classes[c]++; }
  void nontrivial(const std::string &key) { distinct.insert(fnv(key)); }
  // reservoir of samples; want_sample() tells whether the next sample would be stored (so callers can avoid building it)
  long long next_slot = -1;
  bool want_sample() { sample_seen++; if (samples.size() < 12) { next_slot = (long long)samples.size(); return true; } uint64_t k = srng.below(sample_seen); if (k < 12 && k >= 4) { next_slot = (long long)k; return true; } next_slot = -1; return false; }
  void put_sample(const std::string &s) { if (next_slot < 0) return; if ((size_t)next_slot >= samples.size()) samples.push_back(s); else samples[next_slot] = s; next_slot = -1; }
  void sample(const std::string &s) { if (want_sample()) put_sample(s); }
  std::string match_known(const std::vector<std::string> &tags) const {
    for (auto &k : known) { if (k.property != prop || k.status != "open") continue; bool all = true;
      for (auto &r : k.require) if (std::find(tags.begin(), tags.end(), r) == tags.end()) { all = false; break; }
      if (all) return k.id; }
    return "";
  }
  void fail(Failure f) {
    f.known = match_known(f.tags);
    if (f.known.empty()) { classes["violations"]++; } else classes["known:" + f.known]++;
    // cap the number of written records per shard; known ones only need a few examples
    if (!f.known.empty() && classes["known:" + f.known] > 3) return;
    if (f.known.empty()) {
      std::string key = f.symptom;
      for (auto &t : f.tags) if (!t.compare(0, 3, "mn:") || !t.compare(0, 5, "form:") || !t.compare(0, 5, "size:") || !t.compare(0, 6, "group:")) key += "|" + t;
      if (++fail_keys[key] > 2 || failures_written > 3000) return;
    }
    failures_written++;
    std::string t = "[";
    for (size_t i = 0; i < f.tags.size(); i++) t += (i ? "," : "") + jstr(f.tags[i]);
    t += "]";
    fprintf(out, "{\"type\":\"failure\",\"case\":%s,\"text\":%s,\"symptom\":%s,\"detail\":%s,\"tags\":%s,\"known\":%s}\n",
            jstr(f.caseid).c_str(), jstr(f.text).c_str(), jstr(f.symptom).c_str(), jstr(f.detail).c_str(), t.c_str(), jstr(f.known).c_str());
    fflush(out);
  }
  void finish() {
    fprintf(out, "{\"type\":\"summary\",\"evaluations\":%lld,\"classes\":{", evaluations);
    bool first = true; for (auto &c : classes) { fprintf(out, "%s%s:%lld", first ? "" : ",", jstr(c.first).c_str(), c.second); first = false; }
    fprintf(out, "},\"samples\":["); first = true; for (auto &s : samples) { fprintf(out, "%s%s", first ? "" : ",", jstr(s).c_str()); first = false; }
    fprintf(out, "],\"partitioned\":%s,\"distinct_count\":%zu,\"distinct\":[", partitioned ? "true" : "false", distinct.size());
    fprintf(out, "]}\n"); fflush(out);
    if (!hashfile.empty()) { FILE *hf = fopen(hashfile.c_str(), "ab"); if (hf) { std::vector<uint64_t> v(distinct.begin(), distinct.end()); if (!v.empty()) fwrite(v.data(), 8, v.size(), hf); fclose(hf); } }
  }
};

// Run `fn` in `nshards` forked workers.  Each worker appends JSON lines to <outdir>/w<i>.jsonl.
// A worker that dies is attributed to its in-flight case and restarted behind it.
static inline int fanout(const std::string &prop, const std::string &tier, uint64_t seed, int nshards, const std::string &outdir,
                         const std::vector<KnownFinding> &known, const PropFn &fn, int max_restarts = 40) {
  { std::string acc; for (size_t k = 0; k <= outdir.size(); k++) { if (k == outdir.size() || outdir[k] == '/') { if (!acc.empty()) mkdir(acc.c_str(), 0755); } if (k < outdir.size()) acc += outdir[k]; } }
  struct W { pid_t pid = -1; char *slot = nullptr; int restarts = 0; bool done = false; long long skip = 0; };
  std::vector<W> ws(nshards);
  auto spawn = [&](int i) {
    W &w = ws[i];
    if (!w.slot) { w.slot = (char *)mmap(nullptr, 4096, PROT_READ | PROT_WRITE, MAP_SHARED | MAP_ANONYMOUS, -1, 0); }
    w.slot[0] = 0;
    fflush(nullptr);
    pid_t p = fork();
    if (p == 0) {
      std::string path = outdir + "/w" + std::to_string(i) + ".jsonl";
      FILE *f = fopen(path.c_str(), "a"); if (!f) _exit(9);
      int dn = open("/dev/null", O_WRONLY); if (dn >= 0) { dup2(dn, 2); }
      Ctx c; c.prop = prop; c.tier = tier; c.seed = seed; c.shard = i; c.nshards = nshards; c.skip_until = w.skip; c.inflight = w.slot; c.out = f; c.known = known;
      c.srng = Rng(seed * 1000003 + i); c.hashfile = outdir + "/w" + std::to_string(i) + ".hashes";
      fn(c);
      c.finish(); fclose(f); _exit(0);
    }
    w.pid = p;
  };
  for (int i = 0; i < nshards; i++) spawn(i);
  int alive = nshards; int crashes = 0;
  while (alive > 0) {
    int st; pid_t p = wait(&st); if (p < 0) { if (errno == EINTR) continue; break; }
    for (int i = 0; i < nshards; i++) if (ws[i].pid == p) {
      W &w = ws[i];
      bool clean = WIFEXITED(st) && WEXITSTATUS(st) == 0;
      if (clean) { w.done = true; alive--; break; }
      crashes++;
      // attribute to in-flight case
      std::string slot(w.slot); long long idx = -1; std::string cid, txt;
      size_t a = slot.find('\n'); if (a != std::string::npos) { idx = atoll(slot.substr(0, a).c_str()); size_t b = slot.find('\n', a + 1); cid = slot.substr(a + 1, b == std::string::npos ? std::string::npos : b - a - 1); if (b != std::string::npos) txt = slot.substr(b + 1); }
      std::string how = WIFSIGNALED(st) ? ("signal " + std::to_string(WTERMSIG(st))) : ("exit status " + std::to_string(WEXITSTATUS(st)));
      std::string path = outdir + "/w" + std::to_string(i) + ".jsonl";
      FILE *f = fopen(path.c_str(), "a");
      if (f) { fprintf(f, "{\"type\":\"crash\",\"case\":%s,\"text\":%s,\"how\":%s,\"index\":%lld}\n", jstr(cid).c_str(), jstr(txt).c_str(), jstr(how).c_str(), idx); fclose(f); }
      if (idx >= 0 && w.restarts < max_restarts) { w.restarts++; w.skip = idx + 1; spawn(i); }
      else { w.done = true; alive--; f = fopen(path.c_str(), "a"); if (f) { fprintf(f, "{\"type\":\"aborted\",\"reason\":\"worker restarts exhausted\"}\n"); fclose(f); } }
      break;
    }
  }
  // unite the distinct non-trivial case hashes of all workers
  {
    std::vector<uint64_t> all;
    for (int i = 0; i < nshards; i++) { std::string hp = outdir + "/w" + std::to_string(i) + ".hashes"; FILE *hf = fopen(hp.c_str(), "rb"); if (!hf) continue; uint64_t buf[8192]; size_t n; while ((n = fread(buf, 8, 8192, hf)) > 0) all.insert(all.end(), buf, buf + n); fclose(hf); unlink(hp.c_str()); }
    std::sort(all.begin(), all.end()); size_t d = std::unique(all.begin(), all.end()) - all.begin();
    FILE *mf = fopen((outdir + "/merged.json").c_str(), "w"); if (mf) { fprintf(mf, "{\"distinct_nontrivial\":%zu,\"crashes\":%d}\n", d, crashes); fclose(mf); }
  }
  return crashes;
}

} // namespace hz
