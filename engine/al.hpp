// Thin black-box wrapper around the public AssemblyLine API.
#pragma once
extern "C" {
#include "assemblyline.h"
}
#undef DEFAULT
#include "intent.hpp"
#include "fault/wrap.h"
extern "C" struct alw_ctl alw __attribute__((weak));
#include <memory>
#include <thread>
#include <cerrno>
#include <cstring>
#include <sys/mman.h>

namespace al {

// Heap memory has no defined content: in the fault-injectable build every block the library mallocs is pre-filled with a
// byte chosen here (0x00, 0xff, 0x55, 0xaa, ... by selector), so that a field the library forgets to initialise takes
// different values from case to case (and between the two instances a differential check compares).
// the library-managed buffer ends directly in front of an inaccessible page (fault-injectable build only)
static inline void tight_code(bool on) { if (&alw != nullptr) alw.tight_code = on ? 1 : 0; }
static inline void short_reads(int n) { if (&alw != nullptr) alw.short_read = n; }
static inline void heap_fill(unsigned sel) { if (&alw == nullptr) return; static const unsigned char F[] = {0x00, 0xff, 0x55, 0xaa, 0x01, 0xfe, 0x80, 0x7f}; alw.fill_on = 1; alw.fill = F[sel % 8]; }

// 0 STRICT, 1 NASM, 2 SMART coincide with enum asm_opt.  `path` selects one of several documented, equivalent ways of
// reaching the same option state (C12 decides that they are equivalent; using them everywhere makes every other check
// sensitive to state left behind by a setter).
static inline void apply_opts(assemblyline_t a, const spec::Opts &o, unsigned path = 0) {
  switch (path % 4) {
    case 0: break;
    case 1: asm_set_all(a, (enum asm_opt)((o.mov + 1) % 3)); asm_set_all(a, (enum asm_opt)o.mov); break;        // through the other modes first
    case 2: asm_mov_imm(a, (enum asm_opt)((o.mov + 2) % 3)); asm_sib(a, (enum asm_opt)(1 - o.swap)); asm_set_all(a, (enum asm_opt)o.mov); break;
    case 3: asm_mov_imm(a, NASM); asm_mov_imm(a, STRICT); asm_sib(a, (enum asm_opt)o.nobase); asm_mov_imm(a, (enum asm_opt)7); break;
  }
  if (path % 4 == 0) {   // SIB setters first, the mov setter last: no later call repairs what it may have disturbed
    asm_sib_no_base(a, (enum asm_opt)o.nobase); asm_sib_index_base_swap(a, (enum asm_opt)o.swap); asm_mov_imm(a, (enum asm_opt)o.mov); return;
  }
  if (path % 4 == 1 || path % 4 == 2) { /* asm_set_all is the last call that touched the mov dimension */ }
  else asm_mov_imm(a, (enum asm_opt)o.mov);
  asm_sib_index_base_swap(a, (enum asm_opt)o.swap);
  asm_sib_no_base(a, (enum asm_opt)o.nobase);
}

struct Result {
  int rc = -1; int off_before = 0, off_after = 0;
  std::vector<uint8_t> bytes;   // bytes between the offsets (empty on failure)
  bool wrote_on_failure = false; // buffer modified although the call failed
  bool prefix_touched = false;   // bytes before the starting offset modified
};

// The documented entry point or its deprecated alias (same contract): which one is a function of `sel`.
static inline int call_str(assemblyline_t a, const char *text, unsigned sel) {
  return (sel % 3 == 1) ? assemble_str(a, text) : asm_assemble_str(a, text);
}

// A seeded "previous life" of an instance that stays inside every property's domain and ends with chunk fitting
// switched off and the requested options in force: redundant option calls, fitting switched on and off again, a
// failing call (documented name or deprecated alias), a counting call, code assembled, the offset moved.
static inline void prelife(assemblyline_t a, uint64_t seed, const spec::Opts &o) {
  static const char *VALID[] = {"mov rax, rbx", "add rcx, 5", "vpaddd ymm1, ymm2, [eax+ebx*2+0x100]", "mov rax, 0x1122334455667788", "mov byte [rsp+rax], 1", "nop"};
  uint64_t x = seed * 0x9e3779b97f4a7c15ULL + 5; auto nx = [&](unsigned n) { x ^= x << 13; x ^= x >> 7; x ^= x << 17; return (unsigned)((x >> 11) % n); };
  int n = 1 + (int)nx(5);
  for (int i = 0; i < n; i++) {
    switch (nx(7)) {
      case 0: asm_set_all(a, (enum asm_opt)nx(3)); break;
      case 1: asm_sib(a, (enum asm_opt)nx(2)); break;
      case 2: { static const size_t C[] = {2, 3, 8, 16, 17, 64, 4096}; asm_set_chunk_size(a, C[nx(7)]); asm_set_chunk_size(a, nx(2)); break; }
      case 3: { asm_set_offset(a, 0); call_str(a, "definitely not an instruction\n", nx(3)); asm_set_offset(a, 0); break; }
      case 4: { asm_set_offset(a, 0); std::string l = std::string(VALID[nx(6)]) + "\n"; std::vector<char> w(l.begin(), l.end()); w.push_back(0); int c = 0; static const int C[] = {0, 2, 16, 4096}; asm_assemble_string_counting_chunks(a, w.data(), C[nx(4)], &c); asm_set_offset(a, 0); break; }
      case 5: { asm_set_offset(a, 0); std::string l = std::string(VALID[nx(6)]) + "\n"; call_str(a, l.c_str(), nx(3)); asm_set_offset(a, 0); break; }
      case 6: asm_mov_imm(a, (enum asm_opt)7); break;
    }
  }
  asm_mov_imm(a, (enum asm_opt)o.mov); asm_sib_index_base_swap(a, (enum asm_opt)o.swap); asm_sib_no_base(a, (enum asm_opt)o.nobase);
  asm_set_offset(a, 0);
}

// The program text in memory the library may read but not write (the entry points take a const char *; a string literal or a
// read-only mapping of a source file are such memory), with its terminating NUL in the last byte in front of an inaccessible page.
struct RoText {
  char *p = nullptr; void *base = nullptr; size_t span = 0;
  explicit RoText(const std::string &t) {
    size_t pg = 4096, len = t.size() + 1; span = (len + pg - 1) / pg * pg;
    base = mmap(nullptr, span + pg, PROT_NONE, MAP_PRIVATE | MAP_ANONYMOUS, -1, 0); if (base == MAP_FAILED) { base = nullptr; return; }
    mprotect(base, span, PROT_READ | PROT_WRITE); p = (char *)base + (span - len); memcpy(p, t.c_str(), len); mprotect(base, span, PROT_READ);
  }
  ~RoText() { if (base) munmap(base, span + 4096); }
  RoText(const RoText &) = delete; RoText &operator=(const RoText &) = delete;
};
// Other instances come and go while the instance under test lives: one is created and destroyed, and (fault-injectable build, when no
// fault enumeration is in progress) the creation of another one is refused by the operating system.
static inline void others_come_and_go(unsigned sel) {
  assemblyline_t b = asm_create_instance(nullptr, 0); if (b) { if (sel & 1) asm_assemble_str(b, "xchg rax, rbx\n"); asm_destroy_instance(b); }
  if (&alw != nullptr && !alw.armed) { alw.fail_next_kind = ((sel & 2) ? ALW_MMAP : ALW_MALLOC) + 1; assemblyline_t c = asm_create_instance(nullptr, 0); alw.fail_next_kind = 0; if (c) asm_destroy_instance(c); }
}

// Assemble `text` on a new instance over a caller buffer of `n` bytes, starting at `start`.  Derived from the text's
// hash: which equivalent setter path configures the instance, whether the instance has a previous life, whether the
// documented entry point or its deprecated alias is called, and the value errno has on entry (it is the caller's, and
// arbitrary - a library may not read it before setting it).
static inline Result assemble(const std::string &text, int combo, int n = 256, int start = 0, uint8_t fill = 0xcc) {
  Result r;
  std::unique_ptr<uint8_t[]> buf(new uint8_t[n]);
  memset(buf.get(), fill, n);
  unsigned h = 2166136261u; for (unsigned char ch : text) h = (h ^ ch) * 16777619u;
  heap_fill(h >> 21);
  assemblyline_t a = asm_create_instance(buf.get(), n);
  if ((h >> 3) % 8 == 5) { prelife(a, h, spec::combo_opts(combo)); memset(buf.get(), fill, n); }
  else apply_opts(a, spec::combo_opts(combo), h >> 7);
  asm_set_offset(a, start);
  r.off_before = start;
  { static const int E[] = {0, ERANGE, EINVAL, ENOMEM, EINTR, EBADF, ENOENT, 0}; errno = E[(h >> 13) % 8]; }
  // one case in 64: the instance is handed to a thread that has never created one itself and is used there
  // one case in 64: other instances are created (one of them in vain) and destroyed between the configuration and the call
  if ((h >> 9) % 64 == 3) { int e = errno; others_come_and_go(h >> 25); errno = e; }
  // one case in 16: the text lies in read-only memory that ends with its NUL
  std::unique_ptr<RoText> ro; const char *tp = text.c_str(); if ((h >> 11) % 16 == 6) { ro.reset(new RoText(text)); if (ro->p) tp = ro->p; }
  if ((h >> 5) % 64 == 9) { std::thread t([&]() { r.rc = call_str(a, tp, h >> 17); }); t.join(); }
  else r.rc = call_str(a, tp, h >> 17);
  r.off_after = asm_get_offset(a);
  for (int i = 0; i < start; i++) if (buf[i] != fill) r.prefix_touched = true;
  if (r.rc == 0 && r.off_after >= start && r.off_after <= n) r.bytes.assign(buf.get() + start, buf.get() + r.off_after);
  if (r.rc != 0) for (int i = start; i < n; i++) if (buf[i] != fill) r.wrote_on_failure = true;
  asm_destroy_instance(a);
  return r;
}

} // namespace al
