// Thin black-box wrapper around the public AssemblyLine API.
#pragma once
extern "C" {
#include "assemblyline.h"
}
#undef DEFAULT
#include "intent.hpp"
#include <memory>

namespace al {

// 0 STRICT, 1 NASM, 2 SMART coincide with enum asm_opt.  `path` selects one of several documented, equivalent ways of
// reaching the same option state (C12 decides that they are equivalent; using them everywhere makes every other check
// sensitive to state left behind by a setter).
static inline void apply_opts(assemblyline_t a, const spec::Opts &o, unsigned path = 0) {
  switch (path % 4) {
    case 0: break;
    case 1: asm_set_all(a, (enum asm_opt)((o.mov + 1) % 3)); asm_set_all(a, (enum asm_opt)o.mov); break;        // through the other modes first
    case 2: asm_mov_imm(a, (enum asm_opt)((o.mov + 2) % 3)); asm_sib(a, (enum asm_opt)(1 - o.swap)); asm_set_all(a, (enum asm_opt)o.mov); break;
    case 3: asm_mov_imm(a, NASM); asm_mov_imm(a, STRICT); asm_sib(a, (enum asm_opt)o.nobase); asm_mov_imm(a, (enum asm_opt)7); break;
  }
  if (path % 4 == 0) {   // SIB setters first, the mov setter last: no later call repairs what it may have disturbed
    asm_sib_no_base(a, (enum asm_opt)o.nobase); asm_sib_index_base_swap(a, (enum asm_opt)o.swap); asm_mov_imm(a, (enum asm_opt)o.mov); return;
  }
  if (path % 4 == 1 || path % 4 == 2) { /* asm_set_all is the last call that touched the mov dimension */ }
  else asm_mov_imm(a, (enum asm_opt)o.mov);
  asm_sib_index_base_swap(a, (enum asm_opt)o.swap);
  asm_sib_no_base(a, (enum asm_opt)o.nobase);
}

struct Result {
  int rc = -1; int off_before = 0, off_after = 0;
  std::vector<uint8_t> bytes;   // bytes between the offsets (empty on failure)
  bool wrote_on_failure = false; // buffer modified although the call failed
  bool prefix_touched = false;   // bytes before the starting offset modified
};

// Assemble `text` on a fresh instance over a caller buffer of `n` bytes, starting at `start`.
static inline Result assemble(const std::string &text, int combo, int n = 256, int start = 0, uint8_t fill = 0xcc) {
  Result r;
  std::unique_ptr<uint8_t[]> buf(new uint8_t[n]);
  memset(buf.get(), fill, n);
  assemblyline_t a = asm_create_instance(buf.get(), n);
  { unsigned h = 2166136261u; for (unsigned char ch : text) h = (h ^ ch) * 16777619u; apply_opts(a, spec::combo_opts(combo), h >> 7); }
  asm_set_offset(a, start);
  r.off_before = start;
  r.rc = asm_assemble_str(a, text.c_str());
  r.off_after = asm_get_offset(a);
  for (int i = 0; i < start; i++) if (buf[i] != fill) r.prefix_touched = true;
  if (r.rc == 0 && r.off_after >= start && r.off_after <= n) r.bytes.assign(buf.get() + start, buf.get() + r.off_after);
  if (r.rc != 0) for (int i = start; i < n; i++) if (buf[i] != fill) r.wrote_on_failure = true;
  asm_destroy_instance(a);
  return r;
}

} // namespace al
