// C01-C05: single-line encoding properties decided by
// enumerate/generate -> assemble (real library) -> decode (reference decoder) -> compare with intent.
#include "gen.hpp"
#include "props.hpp"

using namespace gen;

// ---------------------------------------------------------------- bulk mode
// The lines that passed the single-line oracle are also assembled in bulk - a few thousand per program - on the
// library-managed buffer (several growths), plainly, with chunk fitting and as a counting call: every line must come out
// with the bytes it has alone (behind NOP padding where fitting needs it).
#include <sys/stat.h>
struct Bulk { std::vector<std::string> texts; std::vector<std::vector<uint8_t>> bytes; };
static std::map<int, Bulk> g_bulk; static long g_bulk_round = 0;
static std::string bulk_dir() { const char *root = getenv("VERIF_ROOT"); std::string d = std::string(root ? root : "/verif") + "/replays"; mkdir(d.c_str(), 0755); d += "/bulk"; mkdir(d.c_str(), 0755); return d; }
static std::string bulk_check(const std::vector<std::string> &texts, const std::vector<std::vector<uint8_t>> &bytes, int combo, int mode, size_t chunk, int ncalls) {
  assemblyline_t a = asm_create_instance(nullptr, 0); if (!a) return "asm_create_instance(NULL, 0) failed";
  al::apply_opts(a, combo_opts(combo), (unsigned)(texts.size() + mode)); if (mode == 1) asm_set_chunk_size(a, chunk);
  size_t per = (texts.size() + ncalls - 1) / ncalls; int total_cnt = 0;
  for (size_t s = 0; s < texts.size(); s += per) {
    std::string prog; for (size_t i = s; i < std::min(texts.size(), s + per); i++) prog += texts[i] + "\n";
    int rc, cnt = 0; if (mode == 2) { std::vector<char> w(prog.begin(), prog.end()); w.push_back(0); rc = asm_assemble_string_counting_chunks(a, w.data(), (int)chunk, &cnt); total_cnt += cnt; } else rc = asm_assemble_str(a, prog.c_str());
    if (rc != 0) { asm_destroy_instance(a); return "call starting at line " + std::to_string(s) + " failed although every line assembles alone"; }
  }
  size_t off = (size_t)asm_get_offset(a); const uint8_t *p = (const uint8_t *)asm_get_code(a); size_t pos = 0; std::string why; int want_cnt = 0;
  for (size_t i = 0; i < texts.size() && why.empty(); i++) {
    size_t L = bytes[i].size();
    if (mode == 1 && chunk >= 2 && L < chunk && pos / chunk != (pos + L - 1) / chunk) { size_t pad = chunk - pos % chunk; size_t q = pos; while (q < pos + pad && q < off) { x86::Insn n = x86::decode(p + q, pos + pad - q); if (!n.ok || !n.isnop) break; q += n.len; } if (q != pos + pad) { why = "line " + std::to_string(i) + " (" + texts[i] + ") at position " + std::to_string(pos) + ": padding to the chunk boundary is missing or not made of NOPs"; break; } pos += pad; }
    if (mode == 2 && chunk >= 2 && pos / chunk != (pos + L - 1) / chunk) want_cnt++;
    if (pos + L > off || memcmp(p + pos, bytes[i].data(), L)) why = "line " + std::to_string(i) + " (" + texts[i] + ") at position " + std::to_string(pos) + " of the library-managed buffer: got " + x86::hex(p + pos, std::min<size_t>(L, pos < off ? off - pos : 0)) + " ; alone it assembles to " + x86::hex(bytes[i].data(), L);
    pos += L;
  }
  if (why.empty() && pos != off) why = "final offset " + std::to_string(off) + " ; the lines add up to " + std::to_string(pos);
  if (why.empty() && mode == 2 && total_cnt != want_cnt) why = "counting call(s) reported " + std::to_string(total_cnt) + " ; " + std::to_string(want_cnt) + " instructions cross a chunk boundary";
  asm_destroy_instance(a); return why;
}
static void bulk_flush(hz::Ctx &ctx, int combo) {
  Bulk &b = g_bulk[combo]; if (b.texts.empty()) return;
  static const size_t CH[] = {17, 9, 7, 23, 13, 38, 4096, 11}; long rd = g_bulk_round++;
  int mode = (int)(rd % 3); size_t chunk = mode == 1 ? CH[(rd / 3) % 8] : 16; int ncalls = 1 + (int)((rd / 2) % 3);
  std::string path = bulk_dir() + "/" + ctx.prop + "-w" + std::to_string(ctx.shard) + "-" + std::to_string(rd) + ".asm";
  { FILE *f = fopen(path.c_str(), "wb"); if (f) { for (auto &t : b.texts) { fputs(t.c_str(), f); fputc('\n', f); } fclose(f); } }
  std::string id = "BF|" + std::to_string(mode) + "|" + std::to_string(chunk) + "|" + std::to_string(combo) + "|" + std::to_string(ncalls) + "|" + path;
  if (ctx.begin(id, "bulk program of " + std::to_string(b.texts.size()) + " lines")) {
    ctx.cls("part:bulk-on-library-managed-buffer"); ctx.cls(mode == 0 ? "bulk:plain" : mode == 1 ? "bulk:fitting" : "bulk:counting"); ctx.nontrivial(id);
    std::string why = bulk_check(b.texts, b.bytes, combo, mode, chunk, ncalls);
    if (ctx.want_sample()) ctx.put_sample(std::to_string(b.texts.size()) + " verified lines in " + std::to_string(ncalls) + " call(s) on the library-managed buffer, " + (mode == 0 ? "plain" : mode == 1 ? "chunk fitting " + std::to_string(chunk) : "counting") + " -> " + (why.empty() ? "every line keeps its bytes" : why));
    if (!why.empty()) { hz::Failure f; f.caseid = id; f.text = "bulk program (" + path + ")"; f.symptom = "bulk"; f.detail = why; f.tags = {"mn:bulk", "form:mode" + std::to_string(mode), "sym:bulk", "group:bulk"}; ctx.fail(f); }
    else unlink(path.c_str());
  }
  b.texts.clear(); b.bytes.clear();
}
static void bulk_add(hz::Ctx &ctx, const LineCase &c, const std::vector<uint8_t> &bytes) {
  Bulk &b = g_bulk[c.combo]; b.texts.push_back(text(c.it)); b.bytes.push_back(bytes);
  if (b.texts.size() >= 2500) bulk_flush(ctx, c.combo);
}
static void bulk_finish(hz::Ctx &ctx) { for (int c = 0; c < 12; c++) bulk_flush(ctx, c); }

// a line that chunk fitting has to pad is encoded twice by the library (once at the unpadded position, once behind
// the padding): the instruction behind the NOPs must still be the one written
void run_fitted_line(hz::Ctx &ctx, const ln::LineCase &c, bool nested);
static void run_fitted(hz::Ctx &ctx, const LineCase &c, bool nested = false) { run_fitted_line(ctx, c, nested); }
void run_fitted_line(hz::Ctx &ctx, const ln::LineCase &c, bool nested) {
  if (!nested && !ctx.take()) return;   // nested: called from inside a case this worker already owns (all workers must see the same take() sequence)
  std::string id = "F|" + serialize(c); if (!ctx.begin(id, text(c.it))) return;
  auto plain = al::assemble(text(c.it), c.combo); if (plain.rc != 0 || plain.bytes.empty()) return;
  size_t L = plain.bytes.size(); if (L < 2) return;
  int chunk = L < 8 ? 8 : L < 16 ? 16 : 32; int left = 1 + (int)((hz::fnv(id) >> 11) % (L - 1)); int start = chunk - left;   // 1..L-1 bytes left in the chunk: the instruction must be padded
  std::vector<uint8_t> buf(128, 0xcc); assemblyline_t a = asm_create_instance(buf.data(), 128); al::apply_opts(a, combo_opts(c.combo)); asm_set_chunk_size(a, chunk); asm_set_offset(a, start);
  int rc = asm_assemble_str(a, text(c.it).c_str()); int off = asm_get_offset(a); asm_destroy_instance(a);
  ctx.cls("part:re-encoded-by-fitting"); ctx.nontrivial(id);
  std::string why;
  if (rc != 0) why = "fitting call failed";
  else { // everything in front of the last L bytes must be NOP padding (the line itself may be a NOP)
    size_t p = (size_t)off >= (size_t)start + L ? (size_t)off - L : (size_t)start; size_t q = start; bool padok = true; while (q < p) { x86::Insn n = x86::decode(buf.data() + q, p - q); if (!n.ok || !n.isnop) { padok = false; break; } q += n.len; }
    if (!padok || (size_t)off - p != L || memcmp(buf.data() + p, plain.bytes.data(), L)) why = "behind the padding the instruction is " + x86::hex(buf.data() + p, off - p) + " ; assembled plainly it is " + x86::hex(plain.bytes.data(), L); }
  if (!why.empty()) { hz::Failure f = make_failure(c, "re-encoding", why); f.caseid = id; f.tags.push_back("group:fitted"); ctx.fail(f); }
}

// the same line assembled behind a context line in one call must give the same bytes as alone (state of the
// previous line must not leak): applied to a sample of every line-level corpus
static void run_context(hz::Ctx &ctx, const LineCase &c, bool nested = false) {
  static const char *CTX[] = {"add rax, rbx", "mov al, 1", "vpaddd ymm1, ymm2, [eax+ebx*2+0x100]", "jmp 5", "mov byte [rdi], 5", "shl cx, 3", "mulx rax, rbx, rcx", "push r12", "mov rax, 0x1122334455667788", "lea r15, [2*rax]", "movq xmm9, r10", "nop7", "test dword [r8d+r9d], 0x80000000", "setne bl", "xchg ax, cx", "call [rsp+8]"};
  if (!nested && !ctx.take()) return;
  std::string id = "K|" + serialize(c); if (!ctx.begin(id, text(c.it))) return;
  const char *cl = CTX[hz::fnv(id) % 16];
  auto alone = al::assemble(text(c.it), c.combo);
  // the line in front of / next to text that is no code: a directive, a label or a comment behind it (also further down),
  // a comment on the line itself - with words that mean something elsewhere (section, global, register and mnemonic names)
  { static const char *AFTER[] = {"\nsection .data\n", "\nglobal main\n", "\n; the global section follows\n", "\nnext_label:\n", " ; bump the global counter\n", " ;section\n", "\n\n\n  SECTION .text\n", " ; mov rax, rbx : x\n", "\nnop\nnop\n; see section 3\n", "\r\n%define global 1\r\n", " ; GLOBAL\n\tglobal f\n", "\n;\n", " ; gr\xc3\xb6\xc3\x9f" "er als\n", "\n; \xe2\x86\x92 next\n;\xff\n", " ; see c:\\asm\\\nnop\nnop\n", "\n; ends in a backslash \\\nnop\nnop\n"};
    unsigned k = (unsigned)((hz::fnv(id) >> 17) % 16); std::string t2 = text(c.it) + AFTER[k]; auto r2 = al::assemble(t2, c.combo);
    size_t extra = (k == 8 || k == 14 || k == 15) ? 2 : 0;   // two nops follow in these variants
    ctx.cls("part:in-front-of-non-code-text");
    if (r2.rc != alone.rc || (alone.rc == 0 && (r2.bytes.size() != alone.bytes.size() + extra || memcmp(r2.bytes.data(), alone.bytes.data(), alone.bytes.size())))) {
      hz::Failure f = make_failure(c, "context-dependent", "followed by " + hz::jesc(AFTER[k]) + " the line gives rc " + std::to_string(r2.rc) + " and " + x86::hex(r2.bytes.data(), r2.bytes.size()) + " ; alone rc " + std::to_string(alone.rc) + " and " + x86::hex(alone.bytes.data(), alone.bytes.size())); f.caseid = id; f.tags.push_back("group:context"); ctx.fail(f); return; } }
  // in front of the line: directives (whatever section they name), labels, comments - and, on another instance, a line with the same mnemonic and
  // operands it does not take (that lookup fails; nothing of it may stick to the thread or the process)
  { static const char *BEFORE[] = {"section .bss\n", "section .data\nglobal x\n", "SECTION .rodata\n", "lbl:\n; c\n", "\n\n", "segment .bss\n", "section .bss\nsection .text\n"};
    unsigned k = (unsigned)((hz::fnv(id) >> 23) % 7); std::string line = text(c.it); std::string mn = line.substr(0, line.find(' '));
    static const char *POISON[] = {" rax, 5", " 5", " rax", "", " rax, rbx, rcx", " xmm1, 5", " [rax], [rbx]", " ymm1"}; std::string poison = mn + POISON[(hz::fnv(id) >> 27) % 8];
    al::Result pz = al::assemble(poison, c.combo); (void)pz;
    std::string t2 = std::string(k == 5 ? "" : BEFORE[k]) + line + "\n"; auto r2 = al::assemble(t2, c.combo);
    ctx.cls("part:behind-non-code-text-and-a-failed-lookup");
    if (r2.rc != alone.rc || r2.bytes != alone.bytes) { hz::Failure f = make_failure(c, "context-dependent", "after a (failing) lookup of \"" + poison + "\" and behind " + hz::jesc(k == 5 ? "" : BEFORE[k]) + " the line gives rc " + std::to_string(r2.rc) + " and " + x86::hex(r2.bytes.data(), r2.bytes.size()) + " ; alone rc " + std::to_string(alone.rc) + " and " + x86::hex(alone.bytes.data(), alone.bytes.size())); f.caseid = id; f.tags.push_back("group:context"); ctx.fail(f); return; } }
  // long runs of blanks: 2100 in front of the line, 120 and 2100 behind the mnemonic and behind the first comma
  { unsigned k = (unsigned)((hz::fnv(id) >> 29) % 5); std::string line = text(c.it), v3; size_t sp = line.find(' '), cm = line.find(',');
    if (k == 0) v3 = std::string(2100, ' ') + line; else if (k == 1 && sp != std::string::npos) v3 = line.substr(0, sp) + std::string(120, ' ') + line.substr(sp); else if (k == 2 && sp != std::string::npos) v3 = line.substr(0, sp) + std::string(2100, '\t') + line.substr(sp);
    else if (k == 3 && cm != std::string::npos) v3 = line.substr(0, cm + 1) + std::string(2100, ' ') + line.substr(cm + 1); else v3 = std::string(97, ' ') + line + std::string(3000, ' ');
    auto r3 = al::assemble(v3, c.combo); ctx.cls("part:long-blank-runs");
    if (r3.rc != alone.rc || r3.bytes != alone.bytes) { hz::Failure f = make_failure(c, "spacing-dependent", "with a run of blanks (variant " + std::to_string(k) + ") the line gives rc " + std::to_string(r3.rc) + " and " + x86::hex(r3.bytes.data(), r3.bytes.size()) + " ; alone rc " + std::to_string(alone.rc) + " and " + x86::hex(alone.bytes.data(), alone.bytes.size())); f.caseid = id; f.tags.push_back("group:context"); ctx.fail(f); return; } }
  // the whole line in capitals (every mnemonic, register and keyword folds)
  { std::string up = text(c.it); for (auto &ch : up) ch = (char)toupper((unsigned char)ch); auto r3 = al::assemble(up, c.combo); ctx.cls("part:in-capitals");
    if (r3.rc != alone.rc || r3.bytes != alone.bytes) { hz::Failure f = make_failure(c, "case-dependent", "\"" + up + "\" gives rc " + std::to_string(r3.rc) + " and " + x86::hex(r3.bytes.data(), r3.bytes.size()) + " ; in lower case rc " + std::to_string(alone.rc) + " and " + x86::hex(alone.bytes.data(), alone.bytes.size())); f.caseid = id; f.tags.push_back("group:context"); ctx.fail(f); return; } }
  auto first = al::assemble(cl, c.combo);
  auto both = al::assemble(std::string(cl) + "\n" + text(c.it) + "\n", c.combo);
  ctx.cls("part:after-context-line"); ctx.nontrivial(id);
  if (first.rc != 0) return;
  std::string why;
  if (both.rc != alone.rc) why = std::string("return code ") + std::to_string(both.rc) + " behind \"" + cl + "\", " + std::to_string(alone.rc) + " alone";
  else if (alone.rc == 0 && (both.bytes.size() != first.bytes.size() + alone.bytes.size() || memcmp(both.bytes.data() + first.bytes.size(), alone.bytes.data(), alone.bytes.size())))
    why = std::string("behind \"") + cl + "\" the line assembles to " + x86::hex(both.bytes.data() + std::min(first.bytes.size(), both.bytes.size()), both.bytes.size() - std::min(first.bytes.size(), both.bytes.size())) + " ; alone to " + x86::hex(alone.bytes.data(), alone.bytes.size());
  if (!why.empty()) { hz::Failure f = make_failure(c, "context-dependent", why); f.caseid = id; f.tags.push_back("group:context"); ctx.fail(f); }
}

static void run_case(hz::Ctx &ctx, const LineCase &c, const std::function<bool(const LineCase &)> &nontrivial,
                     const std::function<void(const LineCase &, const Verdict &, hz::Ctx &)> &extra = nullptr) {
  if (!ctx.take()) return;
  std::string id = serialize(c);
  if (!ctx.begin(id, text(c.it))) return;
  Verdict v = check_encoding(c);
  ctx.cls("cls:" + c.it.cls); ctx.cls("form:" + c.it.form);
  if (nontrivial(c)) ctx.nontrivial(id);
  if (ctx.want_sample()) ctx.put_sample(text(c.it) + "  [" + combo_name(c.combo) + "] -> " + (v.res.rc == 0 ? x86::hex(v.res.bytes.data(), v.res.bytes.size()) : std::string("EXIT_FAILURE")));
  if (!v.ok) { ctx.fail(make_failure(c, v.symptom, v.detail)); return; }
  if (extra) extra(c, v, ctx);
  // the operand's own size keyword in front of a register operand (nasm's spelling "mov byte spl, al"): the library may refuse the line,
  // but when it accepts it, it is the very same instruction (every register-only case; a quarter of the others)
  { std::vector<size_t> g; bool mem = false; for (size_t k = 0; k < c.it.ops.size(); k++) { if (c.it.ops[k].k == K_GPR) g.push_back(k); if (c.it.ops[k].k == K_MEM) mem = true; }
    uint64_t hk = hz::fnv(id) >> 13;
    if (!g.empty() && v.res.rc == 0 && !c.it.kw_imm && (!mem || hk % 4 == 0)) { size_t k = g[(hk >> 2) % g.size()]; std::string t = text_kwreg(c.it, k); auto r = al::assemble(t, c.combo);
      ctx.cls(r.rc == 0 ? "part:keyword-before-register-accepted" : "part:keyword-before-register-refused");
      if (r.rc == 0 && r.bytes != v.res.bytes) { hz::Failure f = make_failure(c, "keyword-before-register", "\"" + t + "\" is accepted and gives " + x86::hex(r.bytes.data(), r.bytes.size()) + " ; without the keyword " + x86::hex(v.res.bytes.data(), v.res.bytes.size())); f.caseid = "KR|" + std::to_string(k) + "|" + id; f.tags.push_back("group:kwreg"); ctx.fail(f); return; } } }
  if (c.it.cls != "branch" && c.it.cls != "branchind" && c.it.cls != "branchfar") bulk_add(ctx, c, v.res.bytes);
  // a sample of every corpus is also assembled behind a context line and where chunk fitting has to re-encode it
  uint64_t hsel = hz::fnv(id) >> 9;
  if (hsel % 29 == 0) run_context(ctx, c, true);
  if (hsel % 31 == 1) run_fitted(ctx, c, true);
}

static std::vector<int> combos_for(hz::Ctx &ctx, uint64_t key, bool sib_matters, bool mov_matters) {
  // the option dimensions that can influence a line are enumerated completely,
  // the others are sampled from the seed (their non-interference is C11's subject)
  std::vector<int> v; uint64_t h = hz::fnv(std::to_string(key)) + ctx.seed * 0x9e37;
  for (int c = 0; c < 12; c++) {
    spec::Opts o = combo_opts(c);
    if (!mov_matters && o.mov != (int)(h % 3)) continue;
    if (!sib_matters && (o.swap != (int)((h >> 8) & 1) || o.nobase != (int)((h >> 9) & 1))) continue;
    v.push_back(c);
  }
  return v;
}

// ---------------------------------------------------------------- C01
void prop_c01(hz::Ctx &ctx) {
  auto refs = form_refs([](const Form &f) { return reg_only(f) && !is_vector_cls(f.cls); });
  auto nontriv = [](const LineCase &c) { for (auto &o : c.it.ops) if (o.k == K_GPR && (o.reg >= 8 || o.width != 64 || o.high8)) return true; return c.it.ops.empty(); };
  for (auto &r : refs) {
    std::vector<std::vector<WOpd>> cands;
    for (auto &s : r.slots) cands.push_back(reg_candidates(s, r.size));
    product(r, cands, [&](Intent &it) {
      for (int combo = 0; combo < 12; combo++) { LineCase c{it, combo}; run_case(ctx, c, nontriv, [](const LineCase &c, const Verdict &v, hz::Ctx &ctx) {
        // nopN must be exactly N bytes long
        if (c.it.mn.rfind("nop", 0) == 0) { int want = c.it.mn.size() > 3 ? atoi(c.it.mn.c_str() + 3) : 1; if ((int)v.res.bytes.size() != want) ctx.fail(make_failure(c, "noplen", "nop length " + std::to_string(v.res.bytes.size()))); }
      }); }
    });
  }
  bulk_finish(ctx);
}

// ---------------------------------------------------------------- C02
void prop_c02(hz::Ctx &ctx) {
  auto refs = form_refs([](const Form &f) { return has_mem(f); });
  ShapeOpts so; so.disp_level = ctx.thorough() ? 2 : 1; so.spellings = true;
  std::vector<WMem> sh = shape_list(so, ctx.seed);
  hz::Rng rng(ctx.seed ^ 0xc02);
  auto nontriv = [](const LineCase &c) { for (auto &o : c.it.ops) if (o.k == K_MEM) { const WMem &m = o.m; if (m.index >= 0 || m.base < 0 || m.base == 4 || m.base == 5 || m.base == 12 || m.base == 13 || m.base >= 8 || m.asize == 32 || (m.has_disp && (m.disp > 127 || m.disp < -128))) return true; } return false; };
  // group form refs by (form pattern, class): each shape is crossed with every group, rotating through the
  // group's mnemonics and sizes (thorough: every member of the group)
  std::map<std::string, std::vector<FormRef>> groups;
  for (auto &r : refs) groups[std::string(r.f->cls) + "/" + r.f->pat + "/" + (r.f->kw == KW_REQ ? "k" : "")].push_back(r);
  uint64_t rot = ctx.seed * 7919;
  for (size_t si = 0; si < sh.size(); si++) {
    for (auto &g : groups) {
      size_t reps = ctx.thorough() ? std::min<size_t>(g.second.size(), 6) : 1;
      for (size_t rep = 0; rep < reps; rep++) {
        const FormRef &r = g.second[(si + rot + rep * 7) % g.second.size()];
        Intent it = base_intent(r);
        bool optkw = ((si + rep) & 1) != 0;
        bool bad = false;
        for (auto &s : r.slots) {
          if (is_mem_slot(s)) it.ops.push_back(mem_for_slot(sh[si], s, r.size, r.f->kw, optkw));
          else if (is_imm_slot(s)) { char pol = imm_policy(s); uint64_t val = pol == 'U' ? (2 + rng.below(60)) : (1 + rng.below(100));
            // the immediate's spelling must not reach the memory operand: plain hex, decimal, all 16 hex digits, zero-padded decimal
            unsigned spl = (unsigned)((si + rep * 3 + rot) % 5); bool hex = spl == 0 || spl == 2 || spl == 4; int pad = spl == 2 ? 16 : spl == 3 ? pad_for(val, false, rng) : spl == 4 ? pad_for(val, true, rng) : 0;
            it.ops.push_back(wimm(val, imm_space(s, r.size), hex, false, pad)); }
          else { auto c = reg_candidates(s, r.size); if (c.empty()) { bad = true; break; } it.ops.push_back(c[rng.below(c.size())]); }
        }
        if (bad) continue;
        if (!encodable(it)) { for (auto &o : it.ops) if (o.k == K_GPR && o.high8) { o.high8 = false; o.reg = o.reg & 3; } if (!encodable(it)) continue; }
        // SIB options matter for every memory operand; enumerate the four SIB combinations
        for (int c : combos_for(ctx, si, true, false)) { LineCase lc{it, c}; run_case(ctx, lc, nontriv); }
      }
    }
  }
  bulk_finish(ctx);
}

// ---------------------------------------------------------------- C03
static void prop_c03_encoding(hz::Ctx &ctx) {
  auto refs = form_refs([](const Form &f) { return has_imm(f); });
  hz::Rng rng(ctx.seed ^ 0xc03);
  auto nontriv = [](const LineCase &c) { for (auto &o : c.it.ops) if (o.k == K_IMM) { uint64_t v = x86::maskw(o.imm.v, o.imm.space); if (v >= 0x80 || o.imm.neg) return true; } return c.it.size != 64 && c.it.size != 0; };
  ShapeOpts so; so.all_regs = false; so.disp_level = 0; so.spellings = false; so.a32 = true;
  std::vector<WMem> sh = shape_list(so, ctx.seed + 3);
  for (auto &r : refs) {
    std::string immslot; for (auto &s : r.slots) if (is_imm_slot(s)) immslot = s;
    char pol = imm_policy(immslot); int space = imm_space(immslot, r.size);
    auto sps = imm_spellings(space == 8 && pol == 'U' ? 8 : (immslot == "IPUSH" ? 64 : r.size), pol, rng, ctx.thorough() ? 600 : 160, true);
    if (pol == 'U') { sps.clear(); for (int v = 0; v < 256; v++) { sps.push_back({(uint64_t)v, false, true, 0}); sps.push_back({(uint64_t)v, false, false, 0}); } }
    // destination kinds: every register (incl. accumulator and r8-r15) / a list of memory shapes
    size_t ndest = 0; std::vector<std::vector<WOpd>> destsets;
    // build candidate lists per non-immediate slot
    std::vector<std::vector<WOpd>> cands;
    for (auto &s : r.slots) {
      if (is_imm_slot(s)) { cands.push_back({}); continue; }
      if (is_mem_slot(s)) { std::vector<WOpd> ms; for (auto &m : sh) { ms.push_back(mem_for_slot(m, s, r.size, r.f->kw, (ms.size() & 1) != 0)); } cands.push_back(ms); }
      else cands.push_back(reg_candidates(s, r.size));
    }
    (void)ndest; (void)destsets;
    size_t big = 0; for (auto &c : cands) big = std::max(big, c.size());
    size_t ncomb = std::max<size_t>(big, 1);
    for (size_t vi = 0; vi < sps.size(); vi++) {
      // rotate through the destinations so that every (destination, value) pair of the first slot is hit
      size_t dsteps = std::min<size_t>(ncomb, ctx.thorough() ? 24 : 6);
      for (size_t dj = 0; dj < dsteps; dj++) {
        size_t di = (vi * 5 + dj * 7 + ctx.seed) % ncomb;
        Intent it = base_intent(r);
        for (size_t k = 0; k < r.slots.size(); k++) {
          if (is_imm_slot(r.slots[k])) it.ops.push_back(wimm(sps[vi].v, space, sps[vi].hex, sps[vi].neg, sps[vi].pad));
          else it.ops.push_back(cands[k][(di + k * 3) % cands[k].size()]);
        }
        if (!encodable(it)) continue;
        if (r.f->kw == KW_REQ && has_mem(*r.f) && ((vi + dj) & 1)) it.kw_imm = true;
        bool ismov = r.mn == "mov";
        for (int c : combos_for(ctx, vi * 131 + di, has_mem(*r.f), ismov)) { LineCase lc{it, c}; run_case(ctx, lc, nontriv); }
      }
    }
  }
}

// executed part of C03: the code for `mov r64, v` then `ret`, when executed, yields v (every mode, every spelling)
struct ExecVerdict { bool ok = true; std::string detail; std::string program; };
static ExecVerdict exec_mov(int combo, int reg, uint64_t v, bool neg, bool hex, int pad) {
  ExecVerdict e; WOpd r = wgpr(reg, 64);
  e.program = "mov " + regtext(r) + ", " + numtext(v, neg, hex, pad) + "\n";
  if (reg != 0) e.program += "mov rax, " + regtext(r) + "\n";
  e.program += "ret\n";
  assemblyline_t a = asm_create_instance(NULL, 0);
  al::apply_opts(a, combo_opts(combo));
  int rc = asm_assemble_str(a, e.program.c_str());
  if (rc != 0) { e.ok = false; e.detail = "EXIT_FAILURE"; asm_destroy_instance(a); return e; }
  uint64_t (*fn)(void) = (uint64_t(*)(void))asm_get_code(a);
  int n = asm_get_offset(a);
  std::string hexs = x86::hex((const uint8_t *)asm_get_code(a), n);
  // make sure the bytes are the three instructions we expect before jumping into them
  const uint8_t *p = (const uint8_t *)asm_get_code(a); int off = 0; bool safe = true; int count = 0; std::string last;
  while (off < n) { x86::Insn I = x86::decode(p + off, n - off); if (!I.ok) { safe = false; break; } last = I.op; if (I.op != "mov" && I.op != "ret") safe = false; off += I.len; count++; }
  if (!safe || last != "ret") { e.ok = false; e.detail = "refusing to execute unexpected code: " + hexs; asm_destroy_instance(a); return e; }
  uint64_t got = fn();
  if (got != v) { e.ok = false; char b[128]; snprintf(b, sizeof b, "returned 0x%llx, want 0x%llx ; code ", (unsigned long long)got, (unsigned long long)v); e.detail = b + hexs; }
  asm_destroy_instance(a);
  return e;
}
static void prop_c03_exec(hz::Ctx &ctx) {
  hz::Rng rng(ctx.seed ^ 0xe3ec);
  auto sps = imm_spellings(64, 'M', rng, ctx.thorough() ? 10000 : 1500, true);
  const int regs[] = {0, 1, 2, 6, 7, 8, 9, 10, 11};
  // literals with more than 16 hex digits (leading zeros, both signs) are executed under STRICT and NASM (under SMART the digit count selects the form)
  { size_t n0 = sps.size(); for (size_t i = 0; i < n0; i++) if (sps[i].hex && sps[i].pad == 0 && (i % 3) == 0) { ImmSp p = sps[i]; p.pad = 17 + (int)(i % 4); sps.push_back(p); }
    // as many leading zeros as the line window allows ("mov rax, " leaves about 85 characters), decimal and hex
    for (size_t i = 0; i < n0; i++) if (sps[i].pad == 0 && (i % 7) == 0) { ImmSp p = sps[i]; static const int LP[] = {40, 60, 62, 63, 64, 65, 70, 84}; p.pad = LP[i % 8]; sps.push_back(p); } }
  for (size_t i = 0; i < sps.size(); i++) for (int mode = 0; mode < 3; mode++) {
    if (sps[i].hex && sps[i].pad > 16 && mode == 2) continue;
    int reg = regs[(i + mode) % 9]; int combo = mode + 3 * (int)((i >> 1) & 3);
    if (!ctx.take()) continue;
    char idb[160]; snprintf(idb, sizeof idb, "X|%d|%d|%llx|%d|%d|%d", combo, reg, (unsigned long long)sps[i].v, sps[i].neg, sps[i].hex, sps[i].pad);
    std::string txt = "exec: mov " + regtext(wgpr(reg, 64)) + ", " + numtext(sps[i].v, sps[i].neg, sps[i].hex, sps[i].pad) + " ; ret  [" + combo_name(combo) + "]";
    if (!ctx.begin(idb, txt)) continue;
    ctx.cls("exec"); ctx.nontrivial(idb);
    ExecVerdict e = exec_mov(combo, reg, sps[i].v, sps[i].neg, sps[i].hex, sps[i].pad);
    if (ctx.want_sample()) ctx.put_sample(txt + (e.ok ? " -> returned the value" : " -> " + e.detail));
    if (!e.ok) { hz::Failure f; f.caseid = idb; f.text = txt; f.symptom = "exec-value"; f.detail = e.detail; f.tags = {"group:exec", "mn:mov", "form:exec", "sym:exec-value"}; ctx.fail(f); }
  }
}
// the corner values of both fields together: address shapes with a special base (rbp/r13 need a zero disp8, rsp/r12
// a SIB byte, none a disp32) x the immediates at the edges of each width, every pair
static void prop_c03_corners(hz::Ctx &ctx) {
  hz::Rng rng(ctx.seed ^ 0xc03c);
  auto nontriv = [](const LineCase &) { return true; };
  std::vector<WMem> sh;
  for (int asize : {64, 32}) for (int base : {5, 13, 4, 12, 0, -1}) for (int index : {-1, 1, 13, 5}) for (int dk = 0; dk < 4; dk++) {
    if (base < 0 && index < 0 && (dk == 0 || asize == 32)) continue;
    WMem m; m.asize = asize; m.base = base; m.index = index; if (index >= 0) { m.scale = base < 0 ? 2 : (dk & 1) ? 4 : 1; m.scale_written = m.scale != 1; m.scale_first = base < 0; /* documented: [scale*index +- offset] */ }
    static const int64_t D[] = {0, 0, 0x7f, -0x80}; m.has_disp = dk != 0; m.disp = D[dk]; m.disp_hex = true; sh.push_back(m);
  }
  for (auto &r : form_refs([](const Form &f) { return has_imm(f) && has_mem(f); })) {
    std::string immslot; for (auto &s : r.slots) if (is_imm_slot(s)) immslot = s;
    char pol = imm_policy(immslot); int space = imm_space(immslot, r.size); int w = space == 8 && pol == 'U' ? 8 : (immslot == "IPUSH" ? 64 : r.size);
    std::vector<ImmSp> sps;
    for (uint64_t v : {0ULL, 1ULL, 0x7fULL, 0x80ULL, 0xffULL, 0x100ULL, 0x7fffULL, 0xffffULL, 0x7fffffffULL, 0xffffffffULL, ~0ULL, ~0x7fULL}) for (int neg = 0; neg < 2; neg++) {
      if (neg && (int64_t)v >= 0) continue;
      if (!representable(v, neg == 1, w, pol)) continue;
      sps.push_back({v, neg == 1, true, 0}); if (v == 0 || (v & 1)) sps.push_back({v, neg == 1, false, 0});
    }
    for (size_t si = 0; si < sh.size(); si++) for (size_t vi = 0; vi < sps.size(); vi++) {
      Intent it = base_intent(r); bool bad = false;
      for (auto &s : r.slots) {
        if (is_imm_slot(s)) it.ops.push_back(wimm(sps[vi].v, space, sps[vi].hex, sps[vi].neg, 0));
        else if (is_mem_slot(s)) it.ops.push_back(mem_for_slot(sh[si], s, r.size, r.f->kw, ((si + vi) & 1) != 0));
        else { auto c = reg_candidates(s, r.size); if (c.empty()) { bad = true; break; } WOpd o = c[(si + vi) % c.size()]; if (o.high8) { o.high8 = false; o.reg &= 3; } it.ops.push_back(o); }
      }
      if (bad || !encodable(it)) continue;
      if (r.f->kw == KW_REQ && ((si + vi) % 3) == 0) it.kw_imm = true;
      LineCase lc{it, (int)((si * 7 + vi * 5 + ctx.seed) % 12)}; run_case(ctx, lc, nontriv);
    }
  }
  (void)rng;
}
void prop_c03(hz::Ctx &ctx) { prop_c03_encoding(ctx); prop_c03_corners(ctx); bulk_finish(ctx); prop_c03_exec(ctx); }

// ---------------------------------------------------------------- C04
void prop_c04(hz::Ctx &ctx) {
  auto nontriv = [](const LineCase &c) { for (auto &o : c.it.ops) { if ((o.k == K_GPR || o.k == K_XMM || o.k == K_YMM) && o.reg >= 8) return true; if (o.k == K_GPR && o.width == 32) return true; if (o.k == K_MEM) return true; } return false; };
  hz::Rng rng(ctx.seed ^ 0xc04);
  // (a) register-only forms: every tuple
  for (auto &r : form_refs([](const Form &f) { return is_vector_cls(f.cls) && reg_only(f); })) {
    std::vector<std::vector<WOpd>> cands; for (auto &s : r.slots) cands.push_back(reg_candidates(s, r.size));
    uint64_t cnt = 0;
    product(r, cands, [&](Intent &it) { for (int c : combos_for(ctx, hz::fnv(it.mn), false, false)) { LineCase lc{it, c}; run_case(ctx, lc, nontriv); if ((cnt++ % (ctx.thorough() ? 7 : 61)) == 0) run_fitted(ctx, lc); } });
  }
  // (b) register + imm8 forms: every tuple x a few immediates
  for (auto &r : form_refs([](const Form &f) { return is_vector_cls(f.cls) && has_imm(f) && !has_mem(f); })) {
    std::vector<std::vector<WOpd>> cands;
    for (auto &s : r.slots) { if (is_imm_slot(s)) { std::vector<WOpd> iv; for (uint64_t v : {0ULL, 1ULL, 0x7fULL, 0x80ULL, 0xffULL}) iv.push_back(wimm(v, 8, true)); cands.push_back(iv); } else cands.push_back(reg_candidates(s, r.size)); }
    product(r, cands, [&](Intent &it) { for (int c : combos_for(ctx, hz::fnv(it.mn), false, false)) { LineCase lc{it, c}; run_case(ctx, lc, nontriv); } });
  }
  // (c) memory forms: address shapes chosen for which of base/index is extended, crossed with every register of the other slots
  ShapeOpts so; so.all_regs = false; so.disp_level = 0; so.spellings = false;
  std::vector<WMem> sh = shape_list(so, ctx.seed + 4);
  for (auto &r : form_refs([](const Form &f) { return is_vector_cls(f.cls) && has_mem(f); })) {
    for (size_t si = 0; si < sh.size(); si++) {
      if (!ctx.thorough() && (si + hz::fnv(r.mn) + ctx.seed) % 4) continue;
      std::vector<std::vector<WOpd>> cands;
      for (auto &s : r.slots) {
        if (is_mem_slot(s)) cands.push_back({mem_for_slot(sh[si], s, r.size, r.f->kw, (si & 1) != 0)});
        else if (is_imm_slot(s)) cands.push_back({wimm(1 + rng.below(254), 8, true)});
        else { auto all = reg_candidates(s, r.size); std::vector<WOpd> pick; // two low, two high registers per slot
               pick.push_back(all[rng.below(8) % all.size()]); if (all.size() > 8) pick.push_back(all[8 + rng.below(8)]); cands.push_back(pick); }
      }
      product(r, cands, [&](Intent &it) { for (int c : combos_for(ctx, si, true, false)) { LineCase lc{it, c}; run_case(ctx, lc, nontriv); if ((si + c) % 5 == 0) run_fitted(ctx, lc); } });
    }
  }
  bulk_finish(ctx);
}

// ---------------------------------------------------------------- C05
static bool has_rel8(const std::string &mn) { return mn != "call" && mn != "xbegin"; }
static bool has_rel32(const std::string &mn) { return mn != "jrcxz"; }


struct RelVerdict { bool ok = true; std::string symptom, detail; al::Result res; };
// the four clauses of C05 for one relative-branch line
static RelVerdict check_rel(const LineCase &c) {
  RelVerdict v; const std::string &mn = c.it.mn; int kw = c.it.brkw; int64_t d = (int64_t)c.it.ops[0].imm.v;
  auto bad = [&](const std::string &s, const std::string &dt) { v.ok = false; v.symptom = s; v.detail = dt; return v; };
  bool fits8 = d >= -128 && d <= 127;
  v.res = al::assemble(text(c.it), c.combo);
  const al::Result &res = v.res;
  bool must_reject = (!has_rel32(mn) || kw == 1) && !fits8;                 // clause 4
  bool must_accept = kw == 0 && (has_rel32(mn) || fits8);                  // clause 2
  if (res.rc != 0) {
    if (must_accept) return bad("rejected", "every d in -2^31..2^31-1 must be accepted without keyword");
    if (res.wrote_on_failure) return bad("wrote-on-reject", "buffer modified by a rejected line");
    return v;
  }
  std::string hexs = x86::hex(res.bytes.data(), res.bytes.size());
  if (must_reject) return bad("wrapped", "rel8-only/short with d outside -128..127 was accepted: " + hexs);
  x86::Insn got = x86::decode(res.bytes.data(), res.bytes.size());
  if (!got.ok) return bad("undecodable", hexs + " : " + got.err);
  if ((size_t)got.len != res.bytes.size()) return bad("length", hexs + " : decoded '" + x86::to_string(got) + "' len " + std::to_string(got.len) + " of " + std::to_string(res.bytes.size()));
  if (got.op != canon_op(mn) || got.ops.size() != 1 || got.ops[0].k != K_REL) return bad("operation", hexs + " decodes to '" + x86::to_string(got) + "'");
  if (got.n66 || got.n67 || got.rex) return bad("prefix", hexs + " carries a prefix that changes or obscures the branch");
  if ((int64_t)got.ops[0].imm != d) return bad("branch displacement", hexs + " decodes to '" + x86::to_string(got) + "' ; want displacement " + std::to_string(d));
  if (kw == 2 && got.ops[0].width != 32) return bad("long-not-rel32", hexs + " : long must force rel32");
  return v;
}

void prop_c05(hz::Ctx &ctx) {
  hz::Rng rng(ctx.seed ^ 0xc05);
  auto rels = rel_values(rng, ctx.thorough() ? 100000 : 12000);
  // far outside 32 bits (also values whose low 8 / 32 bits look like a small displacement): a rel8-only form must still reject them
  std::vector<int64_t> huge; for (int64_t b : {(int64_t)1 << 32, (int64_t)1 << 33, (int64_t)1 << 40, (int64_t)1 << 62, ((int64_t)1 << 31)}) for (int64_t d : {-129LL, -128LL, -123LL, -1LL, 0LL, 1LL, 5LL, 127LL, 128LL}) { if (!(b == ((int64_t)1 << 32) && d >= -128 && d <= -1)) huge.push_back(b + d); /* 0xffffff80..0xffffffff is this library's 32-bit spelling of -128..-1 */ huge.push_back(-b + d); }
  auto refs = form_refs([](const Form &f) { return std::string(f.pat) == "REL"; });
  for (auto &r : refs) {
    for (int kw = 0; kw < 3; kw++) {
      // "short" on call / xbegin (no rel8 form exists): a displacement outside -128..127 must still be refused ("`short` is requested and d is outside"),
      // inside it the line is refused or is that operation with that displacement
      if (kw == 2 && !has_rel32(r.mn)) continue;  // "long" only where a rel32 form exists
      if (kw == 1 || !has_rel32(r.mn)) for (int64_t d : huge) for (int hex = 0; hex < 2; hex++) {
        LineCase c; c.it = base_intent(r); c.it.brkw = kw; c.it.ops.push_back(wrel(d, hex == 1, 0)); c.combo = (int)((hz::fnv(r.mn) + (uint64_t)d) % 12);
        if (!ctx.take()) continue; std::string id = serialize(c); if (!ctx.begin(id, text(c.it))) continue;
        ctx.cls("d:beyond-32-bits"); ctx.nontrivial(id);
        al::Result res = al::assemble(text(c.it), c.combo);
        if (res.rc == 0) ctx.fail(make_failure(c, "wrapped", "rel8-only/short with a displacement far outside -128..127 was accepted: " + x86::hex(res.bytes.data(), res.bytes.size())));
        else if (res.wrote_on_failure) ctx.fail(make_failure(c, "wrote-on-reject", "buffer modified by a rejected line"));
      }
      for (int64_t d : rels) for (int hex = 0; hex < 4; hex++) {
        // spellings: decimal, hex, and both with leading zeros (for the small and boundary displacements and a quarter of the rest)
        int pad = 0; if (hex >= 2) { if (!((d >= -129 && d <= 128) || ((uint64_t)d * 2654435761ULL >> 7) % 4 == 0)) continue; pad = ndigits((uint64_t)(d < 0 ? -d : d), hex == 3) + 1 + (int)(((uint64_t)d >> 1) % 3); if (hex == 3 && ((uint64_t)d >> 3) % 3 == 0) pad = 15 + (int)(((uint64_t)d >> 5) % 4); /* 15..18 hex digits */ }
        LineCase c; c.it = base_intent(r); c.it.brkw = kw; c.it.ops.push_back(wrel(d, (hex & 1) == 1, pad));
        c.combo = (int)((hz::fnv(r.mn) + (uint64_t)d + ctx.seed) % 12);
        if (!ctx.take()) continue;
        std::string id = serialize(c);
        if (!ctx.begin(id, text(c.it))) continue;
        bool fits8 = d >= -128 && d <= 127;
        ctx.cls(std::string("kw:") + (kw == 0 ? "none" : kw == 1 ? "short" : "long")); ctx.cls(fits8 ? "d:fits8" : "d:needs32"); if (d < 0) ctx.cls("d:negative"); if (pad) ctx.cls("d:leading-zeros");
        if (d < 0 || !fits8 || kw) ctx.nontrivial(id);
        RelVerdict rv = check_rel(c);
        if (ctx.want_sample()) ctx.put_sample(text(c.it) + " -> " + (rv.res.rc == 0 ? x86::hex(rv.res.bytes.data(), rv.res.bytes.size()) : std::string("EXIT_FAILURE")));
        if (!rv.ok) ctx.fail(make_failure(c, rv.symptom, rv.detail));
        else if (rv.res.rc == 0) { uint64_t hsel = hz::fnv(id) >> 9; if (hsel % 13 == 0) run_context(ctx, c, true); if (hsel % 11 == 1) run_fitted(ctx, c, true); }
      }
    }
  }
  // indirect forms: registers, memory (address shapes), far memory
  auto nontriv = [](const LineCase &) { return true; };
  for (auto &r : form_refs([](const Form &f) { return std::string(f.cls) == "branchind" && reg_only(f); })) {
    std::vector<std::vector<WOpd>> cands; for (auto &s : r.slots) cands.push_back(reg_candidates(s, r.size));
    product(r, cands, [&](Intent &it) { for (int combo = 0; combo < 12; combo++) { LineCase c{it, combo}; run_case(ctx, c, nontriv); } });
  }
  ShapeOpts so; so.disp_level = 0; so.spellings = false; so.all_regs = ctx.thorough();
  std::vector<WMem> sh = shape_list(so, ctx.seed + 5);
  for (auto &r : form_refs([](const Form &f) { return (std::string(f.cls) == "branchind" || std::string(f.cls) == "branchfar") && has_mem(f); })) {
    for (size_t si = 0; si < sh.size(); si++) {
      Intent it = base_intent(r);
      it.ops.push_back(mem_for_slot(sh[si], r.slots[0], r.size, r.f->kw, (si & 1) != 0));
      for (int c : combos_for(ctx, si, true, false)) { LineCase lc{it, c}; run_case(ctx, lc, nontriv); }
    }
  }
  bulk_finish(ctx);
}

// replay of one serialized line case under the generic oracle (C01-C04 and the indirect part of C05)
int replay_line(const std::string &prop, const std::string &caseid) {
  if (caseid.compare(0, 3, "BF|") == 0) {
    auto f = split(caseid, '|'); if (f.size() != 6) return 2; int mode = atoi(f[1].c_str()); size_t chunk = strtoull(f[2].c_str(), nullptr, 10); int combo = atoi(f[3].c_str()), ncalls = atoi(f[4].c_str());
    std::string all; if (!hz::read_file(f[5], all)) { printf("cannot read %s\n", f[5].c_str()); return 2; }
    std::vector<std::string> texts; std::vector<std::vector<uint8_t>> bytes; size_t p0 = 0; while (p0 < all.size()) { size_t e = all.find('\n', p0); if (e == std::string::npos) e = all.size(); std::string l = all.substr(p0, e - p0); p0 = e + 1; if (l.empty()) continue; auto r = al::assemble(l, combo); if (r.rc != 0) { printf("line does not assemble alone: %s\n", l.c_str()); return 1; } texts.push_back(l); bytes.push_back(r.bytes); }
    std::string why = bulk_check(texts, bytes, combo, mode, chunk, ncalls); printf("%zu lines, mode %d chunk %zu: %s\n", texts.size(), mode, chunk, why.empty() ? "OK" : why.c_str()); return why.empty() ? 0 : 1;
  }
  if (caseid.compare(0, 2, "K|") == 0) {
    LineCase c; if (!parse_case(caseid.substr(2), c)) return 2; hz::Ctx ctx; ctx.out = fopen("/dev/null", "w"); ctx.hashfile.clear(); run_context(ctx, c, true);
    bool bad = ctx.classes.count("violations") && ctx.classes["violations"] > 0; printf("%s behind a context line: %s\n", text(c.it).c_str(), bad ? "FAIL" : "OK"); return bad ? 1 : 0;
  }
  if (caseid.compare(0, 3, "KR|") == 0) {
    size_t bar = caseid.find('|', 3); if (bar == std::string::npos) return 2; size_t k = strtoul(caseid.c_str() + 3, nullptr, 10); LineCase c; if (!parse_case(caseid.substr(bar + 1), c)) return 2;
    auto plain = al::assemble(text(c.it), c.combo); std::string t = text_kwreg(c.it, k); auto r = al::assemble(t, c.combo);
    printf("%s -> rc %d %s\n%s -> rc %d %s\n", text(c.it).c_str(), plain.rc, x86::hex(plain.bytes.data(), plain.bytes.size()).c_str(), t.c_str(), r.rc, x86::hex(r.bytes.data(), r.bytes.size()).c_str());
    bool bad = plain.rc == 0 && r.rc == 0 && r.bytes != plain.bytes; printf(bad ? "FAIL\n" : "OK\n"); return bad ? 1 : 0;
  }
  if (caseid.compare(0, 2, "F|") == 0) {
    LineCase c; if (!parse_case(caseid.substr(2), c)) return 2; hz::Ctx ctx; ctx.out = fopen("/dev/null", "w"); long before = 0; (void)before;
    auto plain = al::assemble(text(c.it), c.combo); size_t L = plain.bytes.size(); if (L < 2) { printf("OK (nothing to pad)\n"); return 0; } int chunk = L < 8 ? 8 : L < 16 ? 16 : 32; int left = 1 + (int)((hz::fnv(caseid) >> 11) % (L - 1)); int start = chunk - left;
    std::vector<uint8_t> buf(128, 0xcc); assemblyline_t a = asm_create_instance(buf.data(), 128); al::apply_opts(a, combo_opts(c.combo)); asm_set_chunk_size(a, chunk); asm_set_offset(a, start); int rc = asm_assemble_str(a, text(c.it).c_str()); int off = asm_get_offset(a); asm_destroy_instance(a);
    size_t p = (size_t)off >= (size_t)start + L ? (size_t)off - L : (size_t)start; size_t q = start; bool padok = rc == 0; while (padok && q < p) { x86::Insn n = x86::decode(buf.data() + q, p - q); if (!n.ok || !n.isnop) { padok = false; break; } q += n.len; }
    bool ok = padok && (size_t)off - p == L && !memcmp(buf.data() + p, plain.bytes.data(), L);
    printf("%s [chunk %d, start %d]: plain %s ; fitted %s\n", text(c.it).c_str(), chunk, start, x86::hex(plain.bytes.data(), L).c_str(), x86::hex(buf.data() + start, off > start ? off - start : 0).c_str()); printf(ok ? "OK\n" : "FAIL\n"); return ok ? 0 : 1;
  }
  if (caseid.compare(0, 2, "X|") == 0) {
    auto f = split(caseid, '|'); if (f.size() != 7) return 2;
    ExecVerdict e = exec_mov(atoi(f[1].c_str()), atoi(f[2].c_str()), strtoull(f[3].c_str(), nullptr, 16), f[4] == "1", f[5] == "1", atoi(f[6].c_str()));
    printf("%s", e.program.c_str()); if (e.ok) { printf("OK\n"); return 0; } printf("FAIL %s\n", e.detail.c_str()); return 1;
  }
  LineCase c; if (!parse_case(caseid, c)) { fprintf(stderr, "cannot parse case\n"); return 2; }
  printf("line: %s   [%s]\n", text(c.it).c_str(), combo_name(c.combo).c_str());
  if (prop == "C05" && c.it.form == "REL") {
    RelVerdict rv = check_rel(c);
    printf("rc=%d bytes=%s\n", rv.res.rc, x86::hex(rv.res.bytes.data(), rv.res.bytes.size()).c_str());
    if (rv.ok) { printf("OK\n"); return 0; }
    printf("FAIL symptom=%s : %s\n", rv.symptom.c_str(), rv.detail.c_str());
    return 1;
  }
  Verdict v = check_encoding(c);
  printf("rc=%d bytes=%s\n", v.res.rc, x86::hex(v.res.bytes.data(), v.res.bytes.size()).c_str());
  if (v.ok) { printf("OK: decodes to %s\n", x86::to_string(v.got).c_str()); return 0; }
  printf("FAIL symptom=%s : %s\n", v.symptom.c_str(), v.detail.c_str());
  return 1;
}
