// History / program-level properties: C06 concatenation, C12 option setters, C13 chunk fitting,
// C14 chunk counting, C15 history independence.  Generated with rapidcheck (shrinking) plus
// exhaustive enumeration of the small finite sub-spaces.
#include "prog.hpp"
#include "props.hpp"
#include <thread>
#include <pthread.h>
extern "C" void alw_reset(void) __attribute__((weak));

using namespace prog;

static const Pool &pool(hz::Ctx &ctx) { static Pool p = build_pool(ctx.seed, 2); return p; }

#include <sys/stat.h>
#include <unistd.h>
#include <sys/wait.h>
#include <fcntl.h>
static std::string hist_tmp(const char *name) { static std::string d; if (d.empty()) { const char *root = getenv("VERIF_ROOT"); std::string rb = std::string(root ? root : "/verif") + "/build"; mkdir(rb.c_str(), 0755); d = rb + "/tmp"; mkdir(d.c_str(), 0755); d += "/h" + std::to_string(getpid()); mkdir(d.c_str(), 0755); } return d + "/" + name; }
static bool hist_write(const std::string &p, const std::string &data) { FILE *f = fopen(p.c_str(), "wb"); if (!f) return false; bool ok = data.empty() || fwrite(data.data(), 1, data.size(), f) == data.size(); fclose(f); return ok; }
static std::string hexv(const std::vector<uint8_t> &v, size_t max = 48) { return x86::hex(v.data(), std::min(v.size(), max)) + (v.size() > max ? " ..." : ""); }

// ===================================================================== C06
struct C06Case { std::vector<std::string> lines; std::vector<int> cuts; int start = 0, prefill = 0, combo = DEFAULT_COMBO; bool noise = false; uint64_t pre = 0; int sep = 0 /*0 LF 1 CRLF 2 CR*/; int tight = 0; /* 1..3: the caller buffer ends 20, 21, 22 bytes behind the start of the last instruction (the least the reserve rule allows) */ int far = 0; /* 1..3: also on the library-managed buffer from a far offset; bit 0 debug listing on, bit 1 chunk fitting with a size never reached */ };
static std::string ser06(const C06Case &c) { std::string s = "C06|" + std::to_string(c.start) + "|" + std::to_string(c.prefill) + "|" + std::to_string(c.combo) + "|" + (c.noise ? "1" : "0") + ":" + std::to_string(c.pre) + ":" + std::to_string(c.sep) + ":" + std::to_string(c.tight) + ":" + std::to_string(c.far) + "|"; for (size_t i = 0; i < c.cuts.size(); i++) s += (i ? "," : "") + std::to_string(c.cuts[i]); for (auto &l : c.lines) s += "|" + l; return s; }
static bool parse06(const std::string &s, C06Case &c) { auto f = split(s, '|'); if (f.size() < 7 || f[0] != "C06") return false; c.start = atoi(f[1].c_str()); c.prefill = atoi(f[2].c_str()); c.combo = atoi(f[3].c_str()); { auto g = split(f[4], ':'); c.noise = g[0] == "1"; c.pre = g.size() > 1 ? strtoull(g[1].c_str(), nullptr, 10) : 0; c.sep = g.size() > 2 ? atoi(g[2].c_str()) : 0; c.tight = g.size() > 3 ? atoi(g[3].c_str()) : 0; c.far = g.size() > 4 ? atoi(g[4].c_str()) : 0; } c.cuts.clear(); for (auto &x : split(f[5], ',')) if (!x.empty()) c.cuts.push_back(atoi(x.c_str())); c.lines.assign(f.begin() + 6, f.end()); return true; }

struct HV { bool ok = true; std::string symptom, detail; };
static void fill(std::vector<uint8_t> &b, int kind, uint64_t seed) { hz::Rng r(seed); for (auto &x : b) x = kind == 0 ? 0x00 : kind == 1 ? 0xff : (uint8_t)r.next(); }

static HV check06(const C06Case &c) {
  HV v; auto bad = [&](const std::string &s, const std::string &d) { v.ok = false; v.symptom = s; v.detail = d; return v; };
  std::vector<uint8_t> want; for (auto &l : c.lines) { auto b = solo(l, c.combo); if (b.empty()) return bad("harness", "line does not assemble alone: " + l); want.insert(want.end(), b.begin(), b.end()); }
  size_t n = c.start + want.size() + 64; if (n < 64) n = 64;
  if (c.tight && !c.lines.empty()) { size_t lastlen = solo(c.lines.back(), c.combo).size(); n = c.start + want.size() - lastlen + 20 + (c.tight - 1); }   // non-code lines behind the last instruction need no room
  std::vector<uint8_t> first;
  for (int rep = 0; rep < 5; rep++) {
    std::vector<uint8_t> buf(n); fill(buf, (c.prefill + rep) % 3, 77 + rep);
    std::vector<uint8_t> before = buf;
    al::heap_fill((unsigned)(rep * 3 + c.start + c.lines.size()));
    assemblyline_t a = asm_create_instance(buf.data(), (int)n);
    if (c.pre && rep == 1) { spec::Opts o = combo_opts(c.combo); prelife(a, c.pre, o.mov, o.swap, o.nobase, c.lines); before = buf; /* the previous life wrote at offset 0 */ } else al::apply_opts(a, combo_opts(c.combo), (unsigned)rep);
    asm_set_offset(a, c.start);
    const char *NL = c.sep == 1 ? "\r\n" : c.sep == 2 ? "\r" : "\n";
    // split at the cut positions (line indices) into successive calls
    size_t li = 0; std::vector<int> cuts = c.cuts; std::sort(cuts.begin(), cuts.end()); cuts.push_back((int)c.lines.size());
    int rc = 0; int ncall = rep;
    if (rep == 4) { // fed through a file that the operating system delivers in pieces (read() returns 7..37 bytes at a time)
      std::string all; for (size_t k = 0; k < c.lines.size(); k++) all += c.lines[k] + NL;
      std::string fp = hist_tmp("c06.asm"); hist_write(fp, all); std::vector<char> pth(fp.begin(), fp.end()); pth.push_back(0);
      al::short_reads(7 + (int)((c.lines.size() * 5 + c.start) % 31)); rc = (c.start & 1) ? assemble_file(a, pth.data()) : asm_assemble_file(a, pth.data()); al::short_reads(0);
      cuts.clear();
    }
    if (rep == 3) { // fed line by line by a caller that cuts its copy of the text with strtok (the library is handed one token at a time)
      std::string all; for (size_t k = 0; k < c.lines.size(); k++) { if (c.noise && (k % 3) == 0) all += std::string("; comment") + NL; all += c.lines[k] + NL; }
      std::vector<char> copy(all.begin(), all.end()); copy.push_back(0);
      for (char *tok = strtok(copy.data(), "\r\n"); tok && rc == 0; tok = strtok(nullptr, "\r\n")) rc = asm_assemble_str(a, tok);
      cuts.clear();
    }
    for (int cut : cuts) {
      if (cut <= (int)li && cut != (int)c.lines.size()) continue; if ((size_t)cut > c.lines.size()) cut = (int)c.lines.size();
      std::string chunk; for (; li < (size_t)cut; li++) { if (c.noise && (li % 3) == 0) chunk += li % 2 ? std::string("; comment") + NL : std::string(NL) + "label_x:" + NL; chunk += c.lines[li] + NL; }
      if (c.noise && cut == (int)c.lines.size()) { static const char *TAIL[] = {"; done", "end_label:", "", "   ", "section .data", "\t; x"}; for (size_t q = 0; q <= c.lines.size() % 3; q++) chunk += std::string(TAIL[(c.lines.size() + q * 5 + c.start) % 6]) + NL; }   // non-code lines behind the last instruction
      if (chunk.empty() && cut != (int)c.lines.size()) continue;
      // the deprecated spelling of the entry point is an entry point too
      rc = (ncall++ & 1) ? assemble_str(a, chunk.c_str()) : asm_assemble_str(a, chunk.c_str()); if (rc != 0) break;
    }
    int off = asm_get_offset(a); bool samebuf = (void *)asm_get_buffer(a) == asm_get_code(a) && asm_get_code(a) == (void *)buf.data(); asm_destroy_instance(a);
    if (!samebuf) return bad("buffer-pointer", "asm_get_code / asm_get_buffer do not return the attached buffer");
    if (rc != 0) return bad("rejected", "a call failed although every line assembles alone");
    if (off != (int)(c.start + want.size())) return bad("offset", "final offset " + std::to_string(off) + " ; want start " + std::to_string(c.start) + " + " + std::to_string(want.size()));
    std::vector<uint8_t> got(buf.begin() + c.start, buf.begin() + off);
    if (got != want) { size_t d = 0; while (d < got.size() && got[d] == want[d]) d++; return bad("bytes", "code differs from the concatenation of the lines' own code at byte " + std::to_string(d) + ": got " + x86::hex(got.data() + d, std::min<size_t>(16, got.size() - d)) + " want " + x86::hex(want.data() + d, std::min<size_t>(16, want.size() - d))); }
    for (int i = 0; i < c.start; i++) if (buf[i] != before[i]) return bad("prefix-touched", "byte " + std::to_string(i) + " before the starting offset was modified");
    if (rep == 0) first = got; else if (got != first) return bad("not-repeatable", "repetition " + std::to_string(rep) + " differs");
  }
  // cases with `far` set (a quarter) also on the library-managed buffer, from an offset far behind its initial length, with the debug listing on and/or
  // chunk fitting enabled with a chunk size the program never reaches; pieces without any instruction are calls of their own
  unsigned sel = (unsigned)(c.lines.size() * 7 + c.start + c.combo);
  if (c.far && !c.lines.empty()) {
    bool dbg = c.far & 1, fit = c.far & 2;
    int saved = -1; if (dbg) { fflush(stdout); saved = dup(1); int nul = open("/dev/null", O_WRONLY); if (nul >= 0) { dup2(nul, 1); close(nul); } }
    struct Restore { int fd; ~Restore() { if (fd >= 0) { fflush(stdout); dup2(fd, 1); close(fd); } } } restore{saved};
    int far = 6020 + 980 * (1 + (int)(sel % 5)) + (int)(sel % 7);
    assemblyline_t a = asm_create_instance(nullptr, 0); if (!a) return bad("harness", "asm_create_instance(NULL) failed");
    al::apply_opts(a, combo_opts(c.combo), sel); if (fit) asm_set_chunk_size(a, (size_t)1 << 24); if (dbg) asm_set_debug(a, true);
    asm_set_offset(a, far);
    const char *NL = c.sep == 1 ? "\r\n" : c.sep == 2 ? "\r" : "\n"; int rc = 0;
    std::vector<std::string> pieces; pieces.push_back(std::string("; a piece without code") + NL + "start_label:" + NL);
    { std::vector<int> cuts = c.cuts; std::sort(cuts.begin(), cuts.end()); cuts.push_back((int)c.lines.size()); size_t li = 0; for (int cut : cuts) { std::string chunk; for (; li < (size_t)cut && li < c.lines.size(); li++) chunk += c.lines[li] + NL; if (!chunk.empty()) { pieces.push_back(chunk); if (sel & 16) pieces.push_back(std::string("section .text") + NL); } } }
    pieces.push_back(std::string(NL) + "; end");
    for (auto &pc : pieces) { rc = asm_assemble_str(a, pc.c_str()); if (rc != 0) break; }
    int off = asm_get_offset(a); std::vector<uint8_t> got; if (rc == 0 && off >= far && off - far < (1 << 20)) got.assign((uint8_t *)asm_get_code(a) + far, (uint8_t *)asm_get_code(a) + off);
    asm_destroy_instance(a);
    std::string how = std::string("library-managed buffer, start ") + std::to_string(far) + (dbg ? ", debug listing on" : "") + (fit ? ", chunk size 2^24" : "") + ", " + std::to_string(pieces.size()) + " calls (first and last without code): ";
    if (rc != 0) return bad("rejected", how + "a call failed although every line assembles alone");
    if (off != far + (int)want.size()) return bad("offset", how + "final offset " + std::to_string(off) + " ; want " + std::to_string(far) + " + " + std::to_string(want.size()));
    if (got != want) return bad("bytes", how + "code differs from the concatenation of the lines' own code");
  }
  return v;
}
static hz::Failure fail06(const C06Case &c, const HV &v) { hz::Failure f; f.caseid = ser06(c); f.text = join(c.lines, "\\n"); f.symptom = v.symptom; f.detail = v.detail; f.tags = {"mn:program", "form:" + std::to_string(c.lines.size()) + "-lines", "sym:" + v.symptom}; return f; }

void prop_c06(hz::Ctx &ctx) {
  const Pool &P = pool(ctx);
  // (1) all ordered pairs of a representative set (one line per instruction class/form/size group)
  {
    std::vector<size_t> R; size_t stride = std::max<size_t>(1, P.lines.size() / (ctx.thorough() ? 1200 : 480));
    for (size_t i = 0; i < P.lines.size(); i += stride) R.push_back(i);
    for (size_t i = 0; i < R.size(); i++) for (size_t j = 0; j < R.size(); j++) {
      if (!ctx.take()) continue;
      C06Case c; c.lines = {P.lines[R[i]], P.lines[R[j]]}; c.combo = (int)((i * 7 + j * 3 + ctx.seed) % 12); c.start = (int)((i + j) % 5 == 0 ? (i * 13 + j) % 4096 : 0); c.prefill = (int)((i + j) % 3); if ((i ^ j) & 1) c.cuts = {1}; if ((i + 2 * j) % 5 == 0) { c.tight = 1 + (int)((i + j) % 3); c.noise = (i & 2) != 0; c.sep = (int)(j % 3); }
      if ((i * 3 + j) % 4 == 1) c.far = 1 + (int)((i + j) % 3);
      std::string id = ser06(c); if (!ctx.begin(id, c.lines[0] + " / " + c.lines[1])) continue;
      ctx.cls("part:ordered-pairs"); ctx.nontrivial(std::to_string(R[i]) + "," + std::to_string(R[j]));
      HV v = check06(c);
      if (ctx.want_sample()) ctx.put_sample("pair \"" + c.lines[0] + "\" ; \"" + c.lines[1] + "\" start " + std::to_string(c.start) + (c.cuts.empty() ? ", one call" : ", two calls") + " -> " + (v.ok ? "concatenation" : v.symptom));
      if (!v.ok) ctx.fail(fail06(c, v));
    }
  }
  // (1c) lines whose filtered text fills the parser's line window (95..99 characters), alone / first / in the middle / last, with each line end
  {
    std::vector<std::string> edge;
    for (int target = 95; target <= 99; target++) for (int host = 0; host < 3; host++) {
      std::string head = host == 0 ? "mov rax, 0x" : host == 1 ? "add qword [rbx+rcx*8+0x" : "lea r10, [rbx+0x", tail = host == 0 ? "5" : host == 1 ? "10], 7" : "20]";
      size_t flt = 0; bool sp = false; for (char ch : head + tail) { if (ch != ' ') flt++; else if (!sp) { flt++; sp = true; } }
      edge.push_back(head + std::string(target - flt, '0') + tail);
    }
    const std::string &o1 = P.lines[ctx.seed % P.lines.size()], &o2 = P.lines[(ctx.seed * 7 + 3) % P.lines.size()];
    for (size_t e = 0; e < edge.size(); e++) for (int sep = 0; sep < 3; sep++) for (int shape = 0; shape < 4; shape++) for (int cutv = 0; cutv < 2; cutv++) {
      if (!ctx.take()) continue;
      C06Case c; c.sep = sep; c.combo = (int)((e + sep + shape + ctx.seed) % 12); c.start = (int)((e * 5 + shape) % 3 == 0 ? 40 + e : 0); c.prefill = (int)(e % 3);
      c.lines = shape == 0 ? std::vector<std::string>{edge[e]} : shape == 1 ? std::vector<std::string>{edge[e], o1} : shape == 2 ? std::vector<std::string>{o1, edge[e], o2} : std::vector<std::string>{o2, edge[(e + 1) % edge.size()], edge[e]};
      if (cutv && c.lines.size() > 1) c.cuts = {1}; c.noise = (e + shape) % 4 == 0; if ((e + sep + shape + cutv) % 4 == 1) c.far = 1 + (int)((e + shape) % 3);
      std::string id = ser06(c); if (!ctx.begin(id, join(c.lines, "\\n").substr(0, 300))) continue;
      ctx.cls("part:window-filling-lines"); ctx.cls(sep == 0 ? "newline:lf" : sep == 1 ? "newline:crlf" : "newline:cr"); ctx.nontrivial(id);
      HV v = check06(c);
      if (ctx.want_sample()) ctx.put_sample("line of " + std::to_string(95 + e / 3) + " filtered characters, " + (sep == 0 ? "LF" : sep == 1 ? "CRLF" : "CR") + ", " + std::to_string(c.lines.size()) + " line(s) -> " + (v.ok ? "concatenation" : v.symptom));
      if (!v.ok) ctx.fail(fail06(c, v));
    }
  }
  // (1b) long programs (several growths of the library-managed buffer inside one call / across calls)
  {
    hz::Rng r(ctx.seed ^ 0x60b); int nlong = ctx.thorough() ? 400 : 48;
    for (int t = 0; t < nlong; t++) {
      int combo = (int)r.below(12); int nlines = 800 + (int)r.below(4000); int ncalls = 1 + (int)r.below(4); uint64_t ls = r.next(); int sep = (int)(ls % 3); const char *NL = sep == 1 ? "\r\n" : sep == 2 ? "\r" : "\n";
      if (!ctx.take()) continue;
      std::string id = "C06L|" + std::to_string(combo) + "|" + std::to_string(nlines) + "|" + std::to_string(ncalls) + "|" + std::to_string(ls) + "|" + std::to_string(ctx.seed);
      if (!ctx.begin(id, "long program on the library-managed buffer")) continue;
      ctx.cls("part:long-internal"); ctx.nontrivial(id);
      HV v; hz::Rng lr(ls); std::vector<uint8_t> want; std::vector<std::string> calls(ncalls);
      for (int i = 0; i < nlines; i++) { const std::string &l = P.lines[lr.below(P.lines.size())]; auto b = solo(l, combo); want.insert(want.end(), b.begin(), b.end()); calls[(size_t)i * ncalls / nlines] += l + NL; }
      ctx.cls(sep == 0 ? "newline:lf" : sep == 1 ? "newline:crlf" : "newline:cr");
      assemblyline_t a = asm_create_instance(nullptr, 0); al::apply_opts(a, combo_opts(combo)); int rc = 0; for (auto &cl : calls) if (!cl.empty() && (rc = asm_assemble_str(a, cl.c_str())) != 0) break;
      int off = asm_get_offset(a);
      if (rc != 0) { v.ok = false; v.symptom = "rejected"; v.detail = "a call failed on the library-managed buffer"; }
      else if (off != (int)want.size()) { v.ok = false; v.symptom = "offset"; v.detail = "final offset " + std::to_string(off) + " ; want " + std::to_string(want.size()); }
      else if (memcmp(asm_get_code(a), want.data(), want.size())) { size_t d = 0; const uint8_t *g = (const uint8_t *)asm_get_code(a); while (g[d] == want[d]) d++; v.ok = false; v.symptom = "bytes"; v.detail = "library-managed buffer differs from the concatenation of the lines' own code at byte " + std::to_string(d) + " of " + std::to_string(want.size()); }
      asm_destroy_instance(a);
      if (ctx.want_sample()) ctx.put_sample(std::to_string(nlines) + " lines (" + std::to_string(want.size()) + " bytes) in " + std::to_string(ncalls) + " call(s) on the library-managed buffer -> " + (v.ok ? "concatenation" : v.symptom));
      if (!v.ok) { hz::Failure f; f.caseid = id; f.text = std::to_string(nlines) + " pool lines in " + std::to_string(ncalls) + " calls, library-managed buffer"; f.symptom = v.symptom; f.detail = v.detail; f.tags = {"mn:program", "form:long-internal", "sym:" + v.symptom}; ctx.fail(f); }
    }
  }
  // (2) random longer programs, all ways of splitting, start offsets, prefill (rapidcheck, shrinking)
  auto gen_case = rc::gen::apply([&P](std::vector<int> idx, std::vector<bool> cutflags, int start, int prefill, int combo, bool noise, int pre, int sep, int farsel) {
    C06Case c; if (idx.empty()) idx.push_back(0); c.far = farsel >= 9 ? farsel - 8 : 0;
    for (int i : idx) c.lines.push_back(P.lines[(size_t)i % P.lines.size()]);
    for (size_t k = 1; k < c.lines.size() && k < cutflags.size(); k++) if (cutflags[k]) c.cuts.push_back((int)k);
    c.start = start; c.prefill = prefill; c.combo = combo; c.noise = noise; c.pre = pre % 2 ? (uint64_t)pre : 0; c.sep = sep < 6 ? 0 : sep < 9 ? 1 : 2; c.tight = (pre >> 3) % 4 == 0 ? 1 + (pre >> 5) % 3 : 0; return c; },
    rc::gen::container<std::vector<int>>(range(0, 1 << 20)), rc::gen::container<std::vector<bool>>(rc::gen::arbitrary<bool>()), range(0, 4097), range(0, 3), range(0, 12), rc::gen::arbitrary<bool>(), range(0, 1 << 20), range(0, 11), range(0, 12));
  rc_rounds(ctx, "C06-programs", ctx.thorough() ? 600000 : 80000, 200, [&]() {
    C06Case c = *gen_case;
    std::string id = ser06(c); if (!ctx.begin(id, join(c.lines, "\\n").substr(0, 300))) return;
    ctx.cls("part:programs"); ctx.cls(c.cuts.empty() ? "calls:one" : "calls:split"); if (c.start) ctx.cls("start:nonzero"); if (c.pre) ctx.cls("instance:previous-life"); if (c.sep) ctx.cls(c.sep == 1 ? "newline:crlf" : "newline:cr"); if (c.tight) ctx.cls("buffer:ends-with-the-reserve"); if (c.noise) ctx.cls("non-code-lines"); if (c.far) ctx.cls("also:library-managed-far-offset");
    if (c.lines.size() >= 2) ctx.nontrivial(id);
    HV v = check06(c);
    if (ctx.want_sample()) ctx.put_sample(std::to_string(c.lines.size()) + " lines, " + std::to_string(c.cuts.size() + 1) + " calls, start " + std::to_string(c.start) + ", first line \"" + c.lines[0] + "\" -> " + (v.ok ? "concatenation" : v.symptom));
    if (!v.ok) { hz::Failure f = fail06(c, v); if (ctx.match_known(f.tags).empty()) { rc_report(f); RC_FAIL(v.symptom + ": " + v.detail); } else ctx.fail(f); }
  });
}

// ===================================================================== C13 / C14 layout model
// expected fitting layout: returns "" when `out` (the bytes emitted from `start`) is a valid chunk-fitted image of insns
static std::string check_fitting(const std::vector<std::vector<uint8_t>> &insns, const uint8_t *out, size_t outlen, size_t start, size_t c, size_t *pads_required = nullptr) {
  size_t pos = start, p = 0; size_t req = 0;
  for (size_t i = 0; i < insns.size(); i++) {
    size_t L = insns[i].size();
    bool cross = c >= 2 && (pos / c != (pos + L - 1) / c);
    if (cross && L < c) {
      size_t pad = c - pos % c; req++;
      if (p + pad > outlen) return "output too short for the padding before instruction " + std::to_string(i);
      if (!all_nops(out + p, pad)) return "padding of " + std::to_string(pad) + " bytes before instruction " + std::to_string(i) + " is not made of NOP instructions: " + x86::hex(out + p, std::min<size_t>(pad, 16));
      p += pad; pos += pad;
    } else if (cross && L >= c) {
      // an instruction not shorter than a chunk cannot fit; padding to the boundary is tolerated, not demanded
      size_t pad = c - pos % c;
      if (!(p + L <= outlen && !memcmp(out + p, insns[i].data(), L)) && pos % c && p + pad + L <= outlen && all_nops(out + p, pad) && !memcmp(out + p + pad, insns[i].data(), L)) { p += pad; pos += pad; }
    }
    if (p + L > outlen) return "output too short at instruction " + std::to_string(i);
    if (memcmp(out + p, insns[i].data(), L)) return "instruction " + std::to_string(i) + " at buffer position " + std::to_string(pos) + " differs from its plain code (or padding was inserted where none is needed): got " + x86::hex(out + p, std::min<size_t>(L + 4, outlen - p)) + " want " + x86::hex(insns[i].data(), L);
    if (c >= 2 && L < c && pos / c != (pos + L - 1) / c) return "instruction " + std::to_string(i) + " straddles a chunk boundary";
    p += L; pos += L;
  }
  if (p != outlen) return "trailing bytes after the last instruction (" + std::to_string(outlen - p) + ")";
  if (pads_required) *pads_required = req;
  return "";
}
static int expected_breaks(const std::vector<std::vector<uint8_t>> &insns, size_t start, size_t c) { if (c < 2) return 0; int n = 0; size_t pos = start; for (auto &b : insns) { if (pos / c != (pos + b.size() - 1) / c) n++; pos += b.size(); } return n; }

struct ChunkCase { long long bigc = 0; /* if non-zero the chunk size really used (values beyond int) */ bool count_first = false; /* C13: a counting call between asm_set_chunk_size and the fitted call */ uint64_t pre = 0; /* seed of the instance's previous life, 0 = fresh */ bool internal = false; std::vector<std::string> lines; int c = 16, start = 0, combo = DEFAULT_COMBO; int toggle = 0; /* C13: 0 none, 1 off-then-on between two calls, 2 on-then-off */ int calls = 1; bool counting = false; int tight = 0; /* C14: 1..3 = the caller buffer ends 20..22 bytes behind the start of the last instruction */ int via = 0; /* C14: 0 string, 1 file, 2 file reached through a symbolic link, 3 file through a relative path with ./ and // */ };
static std::string serck(const ChunkCase &k) { std::string s = std::string(k.counting ? "C14" : "C13") + "|" + std::to_string(k.c) + "|" + std::to_string(k.start) + "|" + std::to_string(k.combo) + "|" + std::to_string(k.toggle) + "|" + std::to_string(k.calls + 100 * (k.internal ? 1 : 0)) + ":" + std::to_string(k.pre) + ":" + std::to_string(k.bigc) + ":" + (k.count_first ? "1" : "0") + ":" + std::to_string(k.tight) + ":" + std::to_string(k.via); for (auto &l : k.lines) s += "|" + l; return s; }
static bool parseck(const std::string &s, ChunkCase &k) { auto f = split(s, '|'); if (f.size() < 7) return false; k.counting = f[0] == "C14"; k.c = atoi(f[1].c_str()); k.start = atoi(f[2].c_str()); k.combo = atoi(f[3].c_str()); k.toggle = atoi(f[4].c_str()); { auto g = split(f[5], ':'); int cc = atoi(g[0].c_str()); k.internal = cc >= 100; k.calls = cc % 100; k.pre = g.size() > 1 ? strtoull(g[1].c_str(), nullptr, 10) : 0; k.bigc = g.size() > 2 ? atoll(g[2].c_str()) : 0; k.count_first = g.size() > 3 && g[3] == "1"; k.tight = g.size() > 4 ? atoi(g[4].c_str()) : 0; k.via = g.size() > 5 ? atoi(g[5].c_str()) : 0; } k.lines.assign(f.begin() + 6, f.end()); return true; }

static HV check13(const ChunkCase &k, size_t *pads = nullptr) {
  HV v; auto bad = [&](const std::string &s, const std::string &d) { v.ok = false; v.symptom = s; v.detail = d; return v; };
  std::vector<std::vector<uint8_t>> ins; size_t total = 0; for (auto &l : k.lines) { ins.push_back(solo(l, k.combo)); if (ins.back().empty()) return bad("harness", "line does not assemble alone: " + l); total += ins.back().size(); }
  size_t n = k.start + total + (size_t)std::min(k.c, 4096) * ins.size() / 1 + 128; if (n > (1u << 20)) n = 1u << 20;
  n = k.start + total + ins.size() * 16 + 128;
  std::vector<uint8_t> ext(n, 0xcc);
  al::heap_fill((unsigned)k.c + (unsigned)k.start * 7u + (unsigned)k.lines.size());
  assemblyline_t a = asm_create_instance(k.internal ? nullptr : ext.data(), (int)n); al::apply_opts(a, combo_opts(k.combo), (unsigned)k.start); asm_set_offset(a, k.start);
  const size_t CHUNK = k.bigc ? (size_t)k.bigc : (size_t)std::max(k.c, 0);
  // toggling: the program is split in two halves; fitting is only active for the half the toggle selects
  size_t half = k.lines.size() / 2;
  std::vector<std::pair<std::vector<std::string>, bool>> parts;
  if (k.toggle == 0 || k.lines.size() < 2) { parts.push_back({k.lines, true}); }
  else if (k.toggle == 3 && k.lines.size() >= 3) { // on, off, on again with the same chunk size
    size_t t1 = k.lines.size() / 3, t2 = 2 * k.lines.size() / 3; if (t1 == 0) t1 = 1; if (t2 <= t1) t2 = t1 + 1;
    parts.push_back({std::vector<std::string>(k.lines.begin(), k.lines.begin() + t1), true}); parts.push_back({std::vector<std::string>(k.lines.begin() + t1, k.lines.begin() + t2), false}); parts.push_back({std::vector<std::string>(k.lines.begin() + t2, k.lines.end()), true}); }
  else { std::vector<std::string> A(k.lines.begin(), k.lines.begin() + half), B(k.lines.begin() + half, k.lines.end()); parts.push_back({A, k.toggle == 2}); parts.push_back({B, k.toggle == 1 || k.toggle == 3}); }
  size_t li = 0; size_t pos = k.start; size_t req_total = 0;
  int prev_mode = -1;
  for (auto &pt : parts) {
    if (prev_mode != (int)pt.second || (k.start & 1)) asm_set_chunk_size(a, pt.second ? CHUNK : 1);   // no redundant setter call between parts of the same mode (half of the cases)
    prev_mode = (int)pt.second;
    if (k.count_first) { // a counting call in between must leave the fitting setup alone
      int keep = asm_get_offset(a), cnt = 0; int variant = (int)((k.start + k.lines.size()) % 4); std::string one = pt.first[0] + "\n"; if (variant >= 2) one += "definitely not an instruction\n"; std::vector<char> w(one.begin(), one.end()); w.push_back(0);
      if (variant == 3) { std::string fp = hist_tmp("between.asm"); hist_write(fp, one); std::vector<char> pth(fp.begin(), fp.end()); pth.push_back(0); asm_assemble_file_counting_chunks(a, pth.data(), 8, &cnt); }
      else if (variant == 1) assemble_string_counting_chunks(a, w.data(), 8, &cnt); else asm_assemble_string_counting_chunks(a, w.data(), 8, &cnt);
      asm_set_offset(a, keep); }
    std::string text = join(pt.first);
    if ((k.start + k.lines.size()) % 3 == 1) { // the same lines with a bad one at the end: the call fails (after assembling the valid ones); the real call follows without any setter in between
      std::string t2 = text + "definitely not an instruction\n"; int keep = asm_get_offset(a); int fr = (k.start & 2) ? assemble_str(a, t2.c_str()) : asm_assemble_str(a, t2.c_str());
      if (fr == 0) { asm_destroy_instance(a); return bad("harness", "a program with a bad last line assembled"); } if (asm_get_offset(a) != keep) { asm_destroy_instance(a); return bad("offset", "the failing call moved the offset from " + std::to_string(keep) + " to " + std::to_string(asm_get_offset(a))); } }
    int rc = asm_assemble_str(a, text.c_str()); int off = asm_get_offset(a);
    const uint8_t *bufp = (const uint8_t *)asm_get_code(a);
    if (rc != 0) { asm_destroy_instance(a); return bad("rejected", "fitting call failed"); }
    if (off < (int)pos || (!k.internal && off > (int)n)) { asm_destroy_instance(a); return bad("offset", "offset " + std::to_string(off)); }
    std::vector<std::vector<uint8_t>> sub(ins.begin() + li, ins.begin() + li + pt.first.size());
    size_t req = 0;
    std::string why = check_fitting(sub, bufp + pos, off - pos, pos, pt.second ? CHUNK : 1, &req);
    if (!why.empty()) { asm_destroy_instance(a); return bad(pt.second && CHUNK >= 2 ? "fitting" : "plain-altered", why + " ; chunk " + std::to_string(pt.second ? CHUNK : 1) + ", call started at " + std::to_string(pos) + ", emitted " + x86::hex(bufp + pos, std::min<size_t>(off - pos, 40))); }
    req_total += req; li += pt.first.size(); pos = off;
  }
  asm_destroy_instance(a);
  if (!k.internal) for (int i = 0; i < k.start; i++) if (ext[i] != 0xcc) return bad("prefix-touched", "byte before the start modified");
  if (pads) *pads = req_total;
  return v;
}

static HV check14(const ChunkCase &k, int *expected_out = nullptr) {
  HV v; auto bad = [&](const std::string &s, const std::string &d) { v.ok = false; v.symptom = s; v.detail = d; return v; };
  std::vector<std::vector<uint8_t>> ins; size_t total = 0; for (auto &l : k.lines) { ins.push_back(solo(l, k.combo)); if (ins.back().empty()) return bad("harness", "line does not assemble alone: " + l); total += ins.back().size(); }
  size_t n = k.start + total * std::max(1, k.calls) + 128; if (k.tight && !k.internal) n = k.start + total * std::max(1, k.calls) - ins.back().size() + 20 + (k.tight - 1);
  // positions beyond 2^27: a caller buffer of up to 2 GiB whose pages exist only where they are touched
  const bool huge = !k.internal && k.start >= (1 << 27); std::vector<uint8_t> ext(huge ? 0 : n, 0xcc);
  struct Lazy { void *p = nullptr; size_t n = 0; ~Lazy() { if (p) munmap(p, n); } } lazy;
  if (huge) { if (n > 0x7fffffffULL) return bad("harness", "buffer beyond INT_MAX"); lazy.p = mmap(nullptr, n, PROT_READ | PROT_WRITE, MAP_PRIVATE | MAP_ANONYMOUS | MAP_NORESERVE, -1, 0); if (lazy.p == MAP_FAILED) { lazy.p = nullptr; return v; /* no address space: nothing to observe */ } lazy.n = n; }
  al::heap_fill((unsigned)k.c * 5u + (unsigned)k.start + (unsigned)k.lines.size());
  assemblyline_t a = asm_create_instance(k.internal ? nullptr : huge ? (uint8_t *)lazy.p : ext.data(), (int)n);
  if (k.pre) { spec::Opts o = combo_opts(k.combo); prelife(a, k.pre, o.mov, o.swap, o.nobase, k.lines); } else al::apply_opts(a, combo_opts(k.combo));
  asm_set_offset(a, k.start);
  size_t pos = k.start;
  for (int call = 0; call < std::max(1, k.calls); call++) {
    std::string text = join(k.lines); std::vector<char> w(text.begin(), text.end()); w.push_back(0);
    int cnt = -12345; int rc;
    if (k.via) { std::string fp = hist_tmp("prog.asm"), lp = hist_tmp("link.asm"); hist_write(fp, text); std::string use = fp;
      if (k.via == 2) { unlink(lp.c_str()); if (symlink(fp.c_str(), lp.c_str()) == 0) use = lp; } else if (k.via == 3) { size_t sl = fp.rfind('/'); use = fp.substr(0, sl) + "/.//" + fp.substr(sl + 1); }
      std::vector<char> pth(use.begin(), use.end()); pth.push_back(0); rc = asm_assemble_file_counting_chunks(a, pth.data(), k.c, &cnt); }
    else rc = (call & 1) ? assemble_string_counting_chunks(a, w.data(), k.c, &cnt) : asm_assemble_string_counting_chunks(a, w.data(), k.c, &cnt);
    int off = asm_get_offset(a);
    if (rc != 0) { asm_destroy_instance(a); return bad("rejected", "counting call " + std::to_string(call) + " failed"); }
    int want = expected_breaks(ins, pos, k.c < 2 ? 0 : (size_t)k.c); if (expected_out && call == 0) *expected_out = want;
    if (off != (int)(pos + total)) { asm_destroy_instance(a); return bad("offset", "offset " + std::to_string(off) + " want " + std::to_string(pos + total)); }
    const uint8_t *buf = (const uint8_t *)asm_get_code(a);
    size_t q = pos; for (auto &b : ins) { if (memcmp(buf + q, b.data(), b.size())) { asm_destroy_instance(a); return bad("bytes", "counting call does not emit the plain code at position " + std::to_string(q)); } q += b.size(); }
    if (cnt != want) { asm_destroy_instance(a); return bad("count", "call " + std::to_string(call) + " started at " + std::to_string(pos) + " with chunk " + std::to_string(k.c) + ": reported " + std::to_string(cnt) + ", " + std::to_string(want) + " instructions span two or more chunks"); }
    pos = off;
  }
  asm_destroy_instance(a);
  return v;
}
static hz::Failure failck(const ChunkCase &k, const HV &v) { hz::Failure f; f.caseid = serck(k); f.text = join(k.lines, "\\n") + " [chunk " + std::to_string(k.c) + ", start " + std::to_string(k.start) + "]"; f.symptom = v.symptom; f.detail = v.detail; f.tags = {"mn:program", "form:chunk", "sym:" + v.symptom, "c:" + std::to_string(k.c)}; return f; }

// one representative line per emitted length
static std::vector<std::string> length_reps(const Pool &P, uint64_t seed) { std::vector<std::string> v; for (auto &kv : P.bylen) v.push_back(P.lines[kv.second[seed % kv.second.size()]]); return v; }

void prop_c13(hz::Ctx &ctx) {
  const Pool &P = pool(ctx);
  auto reps = length_reps(P, ctx.seed);
  for (auto &kv : P.bylen) ctx.cls("len:" + std::to_string(kv.first));
  // exhaustive: c x (start mod c) x instruction length, as two- and three-line programs
  std::vector<int> cs; for (int c = 2; c <= 40; c++) cs.push_back(c); cs.push_back(64); cs.push_back(100); cs.push_back(4096);
  for (int c : cs) for (int s = 0; s < std::min(c, 130); s++) for (size_t r = 0; r < reps.size(); r++) for (int shape = 0; shape < 2; shape++) {
    int start = c <= 130 ? s + c * (int)((r + s) % 3) : (c - 65 + s);   // for large chunks walk across the boundary
    if (!ctx.take()) continue;
    ChunkCase k; k.c = c; k.start = start; k.combo = (int)((c + s + r) % 12);
    k.lines = shape == 0 ? std::vector<std::string>{reps[r], reps[(r + s) % reps.size()]} : std::vector<std::string>{reps[(r * 7 + 3) % reps.size()], reps[r], reps[(r + 1) % reps.size()]};
    if (shape == 1 && (s + r) % 4 == 0) k.toggle = 3;   // fitting on for line 1, off for line 2, on again (same size) for line 3
    std::string id = serck(k); if (!ctx.begin(id, join(k.lines, "\\n"))) continue;
    size_t pads = 0; HV v = check13(k, &pads);
    ctx.cls("part:exhaustive"); if (pads) { ctx.cls("pad:required"); ctx.nontrivial(std::to_string(c) + "/" + std::to_string(start % c) + "/" + std::to_string(solo(k.lines[shape ? 1 : 0], k.combo).size())); }
    if (ctx.want_sample()) ctx.put_sample("chunk " + std::to_string(c) + ", start " + std::to_string(start) + ": " + join(k.lines, " ; ") + " -> " + (v.ok ? std::to_string(pads) + " pad(s), valid layout" : v.symptom));
    if (!v.ok) ctx.fail(failck(k, v));
  }
  // several threads fitting at the same time, each on its own instances: every thread must get the layouts it gets alone
  {
    int rounds = ctx.thorough() ? 200 : 32;
    for (int rd = 0; rd < rounds; rd++) {
      if (!ctx.take()) continue;
      std::string id = "C13T|" + std::to_string(rd) + "|" + std::to_string(ctx.seed); if (!ctx.begin(id, "4 threads fitting concurrently")) continue;
      ctx.cls("part:concurrent-instances"); ctx.nontrivial(id);
      hz::Rng r(ctx.seed * 77 + rd); std::vector<ChunkCase> ks;
      for (int i = 0; i < 48; i++) { ChunkCase k; static const int CS[] = {3, 5, 7, 8, 11, 13, 16, 17}; k.c = CS[r.below(8)]; k.start = (int)r.below(40); k.combo = (int)r.below(12); int nl = 2 + (int)r.below(10); for (int j = 0; j < nl; j++) k.lines.push_back(reps[r.below(reps.size())]); ks.push_back(k); }
      for (auto &k : ks) check13(k);   // single-threaded pass (also fills the cache of per-line bytes, which the threads then only read)
      std::vector<std::string> bad(4); std::vector<std::thread> th;
      for (int t = 0; t < 4; t++) th.emplace_back([&, t]() { for (int rep = 0; rep < 6 && bad[t].empty(); rep++) for (size_t i = 0; i < ks.size(); i++) { HV v = check13(ks[(i + t * 11) % ks.size()]); if (!v.ok) { bad[t] = serck(ks[(i + t * 11) % ks.size()]) + " : " + v.symptom + " : " + v.detail; break; } } });
      for (auto &x : th) x.join();
      std::string why; for (auto &b : bad) if (!b.empty()) { why = b; break; }
      if (ctx.want_sample()) ctx.put_sample("4 threads x 6 x 48 fitted programs on private instances -> " + (why.empty() ? std::string("all layouts as alone") : why));
      if (!why.empty()) { hz::Failure f; f.caseid = id; f.text = "4 threads fitting concurrently on private instances"; f.symptom = "fitting-concurrent"; f.detail = why.substr(0, 600); f.tags = {"mn:program", "form:threads", "sym:fitting-concurrent"}; ctx.fail(f); }
    }
  }
  // long programs on the library-managed buffer: chunk sizes around and beyond its initial length, code that runs past them
  {
    hz::Rng r(ctx.seed ^ 0x13b); int nlong = ctx.thorough() ? 300 : 40; static const int BIGC[] = {5999, 6000, 6001, 6019, 6020, 6021, 6025, 7003, 8192, 9999, 12000, 12001};
    for (int t = 0; t < nlong; t++) {
      ChunkCase k; k.internal = true; k.c = BIGC[r.below(12)]; k.combo = (int)r.below(12); k.start = r.below(3) == 0 ? k.c - (int)r.below(30) : 0; k.count_first = r.below(4) == 0;
      int nl = 1500 + (int)r.below(3000); for (int i = 0; i < nl; i++) k.lines.push_back(P.lines[r.below(P.lines.size())]);
      if (!ctx.take()) continue;
      std::string id = "C13L|" + std::to_string(k.c) + "|" + std::to_string(t) + "|" + std::to_string(ctx.seed); if (!ctx.begin(id, "long program, library-managed buffer, chunk " + std::to_string(k.c))) continue;
      size_t pads = 0; HV v = check13(k, &pads);
      ctx.cls("part:long-internal"); if (pads) { ctx.cls("pad:required"); ctx.nontrivial(id); }
      if (ctx.want_sample()) ctx.put_sample(std::to_string(nl) + " lines on the library-managed buffer, chunk " + std::to_string(k.c) + ", start " + std::to_string(k.start) + " -> " + (v.ok ? std::to_string(pads) + " pad(s), valid layout" : v.symptom));
      if (!v.ok) { hz::Failure f = failck(k, v); f.text = std::to_string(nl) + " lines, library-managed buffer [chunk " + std::to_string(k.c) + ", start " + std::to_string(k.start) + "]"; ctx.fail(f); }
    }
  }
  // random programs x chunk size x start offset x toggling (rapidcheck)
  auto gen_case = rc::gen::apply([&P](std::vector<int> idx, int c, int start, int combo, int toggle, int big, bool cf) {
    ChunkCase k; if (idx.empty()) idx.push_back(1); for (int i : idx) k.lines.push_back(P.lines[(size_t)i % P.lines.size()]);
    static const int CS[] = {0, 1, 2, 3, 4, 5, 7, 8, 11, 12, 13, 15, 16, 17, 24, 31, 32, 33, 64, 100, 128, 4096}; k.c = CS[c % 22]; k.start = start; k.combo = combo; k.toggle = toggle;
    static const long long BIG[] = {(1LL << 32), (1LL << 32) + 16, (1LL << 32) + 3, (1LL << 33) + 8, (1LL << 40) + 5, (1LL << 31), (1LL << 31) + 16}; if (big < 7) { k.bigc = BIG[big]; k.c = 1 << 30; } k.count_first = cf; return k; },
    rc::gen::container<std::vector<int>>(range(0, 1 << 20)), range(0, 22), range(0, 300), range(0, 12), range(0, 4), range(0, 60), rc::gen::arbitrary<bool>());
  rc_rounds(ctx, "C13-programs", ctx.thorough() ? 2000000 : 250000, 60, [&]() {
    ChunkCase k = *gen_case; std::string id = serck(k); if (!ctx.begin(id, join(k.lines, "\\n").substr(0, 300))) return;
    size_t pads = 0; HV v = check13(k, &pads);
    ctx.cls("part:programs"); if (k.toggle) ctx.cls("toggle:yes"); if (k.c < 2) ctx.cls("c:below2"); if (k.bigc) ctx.cls("c:beyond-32-bits"); if (k.count_first) ctx.cls("counting-call-in-between"); if (pads) { ctx.cls("pad:required"); ctx.nontrivial(id); }
    if (ctx.want_sample()) ctx.put_sample(std::to_string(k.lines.size()) + " lines, chunk " + std::to_string(k.c) + ", start " + std::to_string(k.start) + ", toggle " + std::to_string(k.toggle) + " -> " + (v.ok ? std::to_string(pads) + " pad(s), valid layout" : v.symptom));
    if (!v.ok) { hz::Failure f = failck(k, v); if (ctx.match_known(f.tags).empty()) { rc_report(f); RC_FAIL(v.symptom + ": " + v.detail); } else ctx.fail(f); }
  });
}

void prop_c14(hz::Ctx &ctx) {
  const Pool &P = pool(ctx);
  auto reps = length_reps(P, ctx.seed + 1);
  // exhaustive small space: c x start mod c x length (exact-fit and crossing positions)
  std::vector<int> cs = {-1, 0, 1}; for (int c = 2; c <= 40; c++) cs.push_back(c); cs.push_back(64); cs.push_back(4096); cs.push_back(1 << 20);
  for (int c : cs) for (int s = 0; s < std::min(std::max(c, 1), 80); s++) for (size_t r = 0; r < reps.size(); r++) {
    if (!ctx.take()) continue;
    ChunkCase k; k.counting = true; k.c = c; k.start = c > 80 ? c - 40 + s : s; k.combo = (int)((c + s + r) & 7) % 12; k.calls = 1 + (int)((s + r) % 3); if ((s + 2 * r + c) % 3 == 0) k.pre = ctx.seed * 1000 + s * 31 + r; k.lines = {reps[r], reps[(r + s) % reps.size()], reps[(r * 5 + 1) % reps.size()]};
    if ((s + r + c) % 4 == 1) { k.tight = 1 + (int)((s + r) % 3); k.pre = 0; } if ((s * 3 + r + c) % 5 == 2) k.via = 1 + (int)((s + r) % 3);
    std::string id = serck(k); if (!ctx.begin(id, join(k.lines, "\\n"))) continue;
    int want = 0; HV v = check14(k, &want);
    ctx.cls("part:exhaustive"); if (k.tight) ctx.cls("buffer:ends-with-the-reserve"); if (k.via) ctx.cls(k.via == 2 ? "entry:file-through-symlink" : "entry:file"); if (c < 2) ctx.cls("c:below2"); if (k.calls > 1) ctx.cls("calls:repeated"); if (k.pre) ctx.cls("instance:previous-life");
    if (want >= 1 && k.start != 0) ctx.nontrivial(id);
    if (ctx.want_sample()) ctx.put_sample("counting, chunk " + std::to_string(c) + ", start " + std::to_string(k.start) + ", " + std::to_string(k.calls) + " call(s): " + join(k.lines, " ; ") + " -> " + (v.ok ? "count " + std::to_string(want) : v.symptom));
    if (!v.ok) ctx.fail(failck(k, v));
  }
  {
    hz::Rng r(ctx.seed ^ 0x14b); int nlong = ctx.thorough() ? 300 : 40; static const int BIGC[] = {5999, 6000, 6001, 6019, 6020, 6021, 6025, 7003, 9999, 12000, 12001, 18020};
    for (int t = 0; t < nlong; t++) {
      ChunkCase k; k.counting = true; k.internal = true; k.c = BIGC[r.below(12)]; k.combo = (int)r.below(12); k.calls = 1; k.start = 0; if (r.below(3) == 0) k.pre = r.next() | 1;
      int nl = 1200 + (int)r.below(3500); for (int i = 0; i < nl; i++) k.lines.push_back(P.lines[r.below(P.lines.size())]);
      if (!ctx.take()) continue;
      std::string id = "C14L|" + std::to_string(k.c) + "|" + std::to_string(k.combo) + "|" + std::to_string(k.pre) + "|" + std::to_string(t) + "|" + std::to_string(ctx.seed); if (!ctx.begin(id, "long program, library-managed buffer, chunk " + std::to_string(k.c))) continue;
      int want = 0; HV v = check14(k, &want);
      ctx.cls("part:long-internal"); ctx.cls("buffer:library-managed"); if (want >= 1) ctx.nontrivial(id);
      if (ctx.want_sample()) ctx.put_sample(std::to_string(nl) + " lines on the library-managed buffer, chunk " + std::to_string(k.c) + " -> " + (v.ok ? "count " + std::to_string(want) : v.symptom));
      if (!v.ok) { hz::Failure f = failck(k, v); f.caseid = serck(k); f.text = std::to_string(nl) + " lines, library-managed buffer [chunk " + std::to_string(k.c) + "]"; ctx.fail(f); }
    }
  }
  // positions and chunk sizes up to the limits of the int interface: a caller buffer of up to 2 GiB (lazily mapped), starts around 2^27..2^31-200,
  // chunk sizes around 2^29, 2^30 and INT_MAX - the next boundary lies below, at or beyond 2^31
  {
    static const long long ST[] = {(1LL << 27) + 3, (1LL << 30) - 5, (1LL << 30) + 11, 0x5000000bLL, 0x7ffffe00LL, 0x60000000LL - 7, 0x3ffffffbLL};
    static const int CH[] = {0x40000000, 0x20000000, 0x7fffffff, 0x10000, 16, 0x3fffffff, 0x60000000, 0x40000001};
    auto reps14 = length_reps(P, ctx.seed + 3);
    for (int si = 0; si < 7; si++) for (int ci = 0; ci < 8; ci++) for (int var = 0; var < (ctx.thorough() ? 4 : 1); var++) {
      if (!ctx.take()) continue;
      ChunkCase k; k.counting = true; k.c = CH[ci]; k.start = (int)ST[si] + var * 3; k.combo = (si * 5 + ci + var) % 12; k.calls = 1 + (si + ci) % 2;
      for (int i = 0; i < 5; i++) k.lines.push_back(reps14[(si * 3 + ci + i * 7 + var) % reps14.size()]);
      std::string id = serck(k); if (!ctx.begin(id, "counting at position " + std::to_string(k.start) + " with chunk " + std::to_string(k.c))) continue;
      int want = 0; HV v = check14(k, &want);
      ctx.cls("part:huge-positions"); ctx.nontrivial(id);
      if (ctx.want_sample()) ctx.put_sample("5 lines at position " + std::to_string(k.start) + " of a lazily mapped caller buffer, chunk " + std::to_string(k.c) + " -> " + (v.ok ? "count " + std::to_string(want) : v.symptom));
      if (!v.ok) ctx.fail(failck(k, v));
    }
  }
  // growth of the library-managed buffer in the middle of counting: one-byte nops up to a few bytes before a growth threshold, then two long
  // instructions (the first ends just behind the threshold, the second starts inside the last 20 bytes), then a short tail
  {
    std::vector<std::string> longs; for (auto it = P.bylen.rbegin(); it != P.bylen.rend() && longs.size() < 6; ++it) if (it->first >= 9) longs.push_back(P.lines[it->second[ctx.seed % it->second.size()]]);
    for (int q = 1; q <= 2; q++) for (int d = 0; d <= 26; d += (ctx.thorough() ? 1 : 2)) for (size_t a = 0; a < longs.size(); a++) for (int c : {100000, 6100, 17}) {
      if (!ctx.take()) continue;
      ChunkCase k; k.counting = true; k.internal = true; k.c = c; k.combo = DEFAULT_COMBO; k.start = 0; k.calls = 1 + (int)((d + a) % 2); k.lines.assign((size_t)(6000 * q - d + (int)(ctx.seed % 2)), "nop"); k.lines.push_back(longs[a]); k.lines.push_back(longs[(a + 1 + d) % longs.size()]); k.lines.push_back("nop"); k.lines.push_back(longs[(a + 2) % longs.size()]);
      std::string id = "C14G|" + std::to_string(q) + "|" + std::to_string(d) + "|" + std::to_string(a) + "|" + std::to_string(c) + "|" + std::to_string(ctx.seed); if (!ctx.begin(id, "nops up to a growth threshold, long instructions across it, counting with chunk " + std::to_string(c))) continue;
      int want = 0; HV v = check14(k, &want);
      ctx.cls("part:growth-threshold"); ctx.nontrivial(id);
      if (ctx.want_sample()) ctx.put_sample(std::to_string(k.lines.size() - 4) + " nops, then \"" + longs[a] + "\" ... on the library-managed buffer, chunk " + std::to_string(c) + " -> " + (v.ok ? "count " + std::to_string(want) : v.symptom));
      if (!v.ok) { hz::Failure f = failck(k, v); f.caseid = id; f.text = std::to_string(k.lines.size() - 4) + " nops then long instructions across the growth threshold, library-managed buffer [chunk " + std::to_string(c) + "]"; ctx.fail(f); }
    }
  }
  // chunk sizes that are no powers of two at positions where position x chunk size passes 2^32 (and other large pairs): boundary just in front of, at and behind the instruction
  {
    hz::Rng r(ctx.seed ^ 0x14c); int np = ctx.thorough() ? 6000 : 900;
    for (int t = 0; t < np; t++) {
      static const int CB[] = {65535, 65537, 65521, 99991, 100000, 131071, 262145, 1000003, 46341, 33333, 4097, 12289}; int c = t % 3 == 0 ? CB[r.below(12)] : 1000 + (int)r.below(1 << 20); int m = 1 + (int)r.below(t % 2 ? 64 : 8); long long pos = (long long)m * c - (long long)r.below(16);
      // every worker draws the same numbers whether or not the case is its own (the sharding index must advance alike everywhere)
      int combo_t = (int)r.below(12); size_t li_t[3]; for (int i = 0; i < 3; i++) li_t[i] = r.below(reps.size());
      if (pos < 0 || pos > (48LL << 20)) continue;
      if (!ctx.take()) continue;
      ChunkCase k; k.counting = true; k.internal = true; k.c = c; k.start = (int)pos; k.combo = combo_t; k.calls = 1; for (int i = 0; i < 3; i++) k.lines.push_back(reps[li_t[i]]);
      std::string id = serck(k); if (!ctx.begin(id, join(k.lines, "\\n"))) continue;
      int want = 0; HV v = check14(k, &want);
      ctx.cls("part:large-chunk-large-position"); if (want >= 1) ctx.nontrivial(id);
      if (ctx.want_sample()) ctx.put_sample("counting, chunk " + std::to_string(c) + ", start " + std::to_string(k.start) + " (library-managed buffer) -> " + (v.ok ? "count " + std::to_string(want) : v.symptom));
      if (!v.ok) ctx.fail(failck(k, v));
    }
  }
  // a program of about a megabyte counted on a thread whose stack is a quarter of that (the library has no business copying its input to the stack)
  for (int t = 0; t < (ctx.thorough() ? 12 : 3); t++) {
    if (!ctx.take()) continue;
    std::string id = "C14S|" + std::to_string(t) + "|" + std::to_string(ctx.seed); if (!ctx.begin(id, "a megabyte of program text, counting call on a thread with a 256 KiB stack")) continue;
    ctx.cls("part:large-text-small-stack"); ctx.nontrivial(id);
    hz::Rng r(ctx.seed * 91 + t); std::string text; std::vector<uint8_t> want; while (text.size() < (900u << 10)) { const std::string &l = P.lines[r.below(P.lines.size())]; auto b = solo(l, DEFAULT_COMBO); text += l; text += "\n"; want.insert(want.end(), b.begin(), b.end()); }
    static const int CS[] = {16, 0, 4096}; int c = CS[t % 3]; struct Arg { std::string *text; int c; int rc, cnt, off; std::vector<uint8_t> got; bool file; std::string path; } arg{&text, c, -1, 0, 0, {}, t % 2 == 1, hist_tmp("big.asm")}; if (arg.file) hist_write(arg.path, text);
    pthread_attr_t at; pthread_attr_init(&at); pthread_attr_setstacksize(&at, 256 << 10); pthread_t th;
    auto body = [](void *p) -> void * { Arg *a = (Arg *)p; assemblyline_t al = asm_create_instance(nullptr, 0); std::vector<char> w(a->text->begin(), a->text->end()); w.push_back(0); std::vector<char> pth(a->path.begin(), a->path.end()); pth.push_back(0);
      a->rc = a->file ? asm_assemble_file_counting_chunks(al, pth.data(), a->c, &a->cnt) : asm_assemble_string_counting_chunks(al, w.data(), a->c, &a->cnt); a->off = asm_get_offset(al); if (a->rc == 0) a->got.assign((uint8_t *)asm_get_code(al), (uint8_t *)asm_get_code(al) + a->off); asm_destroy_instance(al); return nullptr; };
    pthread_create(&th, &at, body, &arg); pthread_join(th, nullptr); pthread_attr_destroy(&at);
    std::string why; if (arg.rc != 0) why = "counting call returned " + std::to_string(arg.rc); else if (arg.got != want) why = "code differs from the concatenation of the lines' own code (" + std::to_string(arg.got.size()) + " vs " + std::to_string(want.size()) + " bytes)";
    else { std::vector<std::vector<uint8_t>> ins; /* expected count */ size_t pos = 0; int exp = 0; hz::Rng r2(ctx.seed * 91 + t); size_t tl = 0; while (tl < (900u << 10)) { const std::string &l = P.lines[r2.below(P.lines.size())]; auto b = solo(l, DEFAULT_COMBO); tl += l.size() + 1; if (c >= 2 && pos / c != (pos + b.size() - 1) / c) exp++; pos += b.size(); } if (arg.cnt != exp) why = "reported " + std::to_string(arg.cnt) + ", " + std::to_string(exp) + " instructions span two or more chunks"; }
    if (ctx.want_sample()) ctx.put_sample(std::to_string(text.size()) + " bytes of program text" + (arg.file ? " in a file" : "") + ", counting with chunk " + std::to_string(c) + " on a thread with a 256 KiB stack -> " + (why.empty() ? "count and code as expected" : why));
    if (!why.empty()) { hz::Failure f; f.caseid = id; f.text = "about a megabyte of program text, counting call (chunk " + std::to_string(c) + ") on a thread with a 256 KiB stack"; f.symptom = "count"; f.detail = why; f.tags = {"mn:program", "form:large-text", "sym:count"}; ctx.fail(f); }
  }
  // programs that emit nothing (empty, comments, labels, directives, blank lines) at every offset of small caller buffers: the
  // counting call reports 0 and otherwise does what the plain call does
  {
    static const char *EMPTY[] = {"", "; only a comment\n", "lbl:\n", "\n\n", "section .text\n; x\n\tglobal f\n", "   ", "; no newline"};
    for (int n = 0; n <= 45; n++) for (int start = 0; start <= n; start++) for (int e = 0; e < 7; e++) for (int c : {-1, 0, 1, 2, 16, 4096}) {
      if (!ctx.take()) continue;
      std::string id = "C14E|" + std::to_string(n) + "|" + std::to_string(start) + "|" + std::to_string(e) + "|" + std::to_string(c); if (!ctx.begin(id, hz::jesc(EMPTY[e]))) continue;
      ctx.cls("part:programs-without-instructions"); if (n - start < 20) ctx.nontrivial(id);
      std::vector<uint8_t> b1(n + 1, 0xcc), b2(n + 1, 0xcc); al::heap_fill((unsigned)(n + start)); assemblyline_t a1 = asm_create_instance(b1.data(), n); al::heap_fill((unsigned)(n + start + 1)); assemblyline_t a2 = asm_create_instance(b2.data(), n);
      asm_set_offset(a1, start); asm_set_offset(a2, start); std::string t = EMPTY[e]; std::vector<char> w(t.begin(), t.end()); w.push_back(0); int cnt = -7;
      int r1 = (start & 1) ? assemble_string_counting_chunks(a1, w.data(), c, &cnt) : asm_assemble_string_counting_chunks(a1, w.data(), c, &cnt), r2 = asm_assemble_str(a2, t.c_str()); int o1 = asm_get_offset(a1), o2 = asm_get_offset(a2);
      asm_destroy_instance(a1); asm_destroy_instance(a2);
      std::string why; if (r1 != r2) why = "counting call returned " + std::to_string(r1) + ", plain call " + std::to_string(r2); else if (o1 != o2) why = "offset " + std::to_string(o1) + " vs " + std::to_string(o2); else if (r1 == 0 && cnt != 0) why = "count " + std::to_string(cnt) + " for a program without instructions"; else if (b1 != b2) why = "buffers differ";
      if (!why.empty()) { hz::Failure f; f.caseid = id; f.text = "program without instructions \"" + hz::jesc(EMPTY[e]) + "\", buffer of " + std::to_string(n) + " bytes, offset " + std::to_string(start) + ", chunk " + std::to_string(c); f.symptom = "count"; f.detail = why; f.tags = {"mn:program", "form:empty", "sym:count"}; ctx.fail(f); }
    }
  }
  auto gen_case = rc::gen::apply([&P](std::vector<int> idx, int c, int start, int combo, int calls, int pre, bool internal) {
    ChunkCase k; k.counting = true; if (idx.empty()) idx.push_back(1); for (int i : idx) k.lines.push_back(P.lines[(size_t)i % P.lines.size()]);
    static const int CS[] = {-5, -1, 0, 1, 2, 3, 4, 5, 7, 8, 11, 13, 15, 16, 17, 32, 33, 64, 100, 4096, 65536, 1 << 30}; k.c = CS[c % 22]; k.start = start; k.combo = combo; k.calls = calls; k.pre = pre % 3 == 0 ? 0 : (uint64_t)pre; k.internal = internal; k.tight = (pre >> 4) % 3 == 0 ? 1 + (pre >> 7) % 3 : 0; if (k.tight) k.pre = 0; k.via = (pre >> 9) % 3 == 0 ? 1 + (pre >> 11) % 3 : 0; return k; },
    rc::gen::container<std::vector<int>>(range(0, 1 << 20)), range(0, 22), range(0, 300), range(0, 12), range(1, 4), range(0, 1 << 20), rc::gen::arbitrary<bool>());
  rc_rounds(ctx, "C14-programs", ctx.thorough() ? 3000000 : 300000, 60, [&]() {
    ChunkCase k = *gen_case; std::string id = serck(k); if (!ctx.begin(id, join(k.lines, "\\n").substr(0, 300))) return;
    int want = 0; HV v = check14(k, &want);
    ctx.cls("part:programs"); if (k.c < 2) ctx.cls("c:below2"); if (k.calls > 1) ctx.cls("calls:repeated"); if (k.pre) ctx.cls("instance:previous-life"); if (k.internal) ctx.cls("buffer:library-managed"); if (k.tight && !k.internal) ctx.cls("buffer:ends-with-the-reserve"); if (k.via) ctx.cls(k.via == 2 ? "entry:file-through-symlink" : "entry:file"); if (want >= 1 && k.start != 0) ctx.nontrivial(id);
    if (ctx.want_sample()) ctx.put_sample(std::to_string(k.lines.size()) + " lines, chunk " + std::to_string(k.c) + ", start " + std::to_string(k.start) + ", " + std::to_string(k.calls) + " call(s) -> " + (v.ok ? "count " + std::to_string(want) : v.symptom));
    if (!v.ok) { hz::Failure f = failck(k, v); if (ctx.match_known(f.tags).empty()) { rc_report(f); RC_FAIL(v.symptom + ": " + v.detail); } else ctx.fail(f); }
  });
}

// ===================================================================== C12
struct Model { int mov = 2, swap = 1, nobase = 1; };
// an option value a setter does not document changes nothing
static void model_apply(Model &m, int setter, int v) {
  switch (setter) {
    case 0: if (v >= 0 && v <= 2) m.mov = v; break;
    case 1: if (v == 0 || v == 1) m.swap = v; break;
    case 2: if (v == 0 || v == 1) m.nobase = v; break;
    case 3: if (v == 0 || v == 1) { m.swap = v; m.nobase = v; } break;
    case 4: if (v == 0 || v == 1) { m.mov = v; m.swap = v; m.nobase = v; } else if (v == 2) m.mov = 2; break;
  }
}
static const char *SRC12[] = {"nop\n", "definitely not an instruction\n", "mov rax, 0x7fffffff\nadd rax, zzz\n", "mov rax, 0x000000007fffffff\nlea r15, [rax+rsp]\nlea r15, [2*rax]\n"};
static void real_apply(assemblyline_t a, int setter, int v) {
  enum asm_opt o = (enum asm_opt)v;
  // 8, 9: other calls of the API that are no option setters: debug listing on/off, chunk size on/off, offset
  if (setter == 8) { if ((unsigned)v % 3 == 0) { asm_set_debug(a, true); asm_set_debug(a, false); } else asm_set_debug(a, false); return; }
  if (setter == 9) { static const size_t CSZ[] = {16, 0, 4096, 1, 7}; asm_set_chunk_size(a, CSZ[(unsigned)v % 5]); asm_set_chunk_size(a, 0); asm_set_offset(a, (unsigned)v % 50); asm_set_offset(a, 0); return; }
  // 5..7: assemble calls - they are no setters and change no option, whether they succeed or fail
  if (setter >= 5) { const char *src = SRC12[(unsigned)v % 4]; asm_set_offset(a, 0);
    if (setter == 5) assemble_str(a, src); else if (setter == 6) asm_assemble_str(a, src); else { std::string t = src; std::vector<char> w(t.begin(), t.end()); w.push_back(0); int cnt = 0; if (v & 4) assemble_string_counting_chunks(a, w.data(), 16, &cnt); else asm_assemble_string_counting_chunks(a, w.data(), 16, &cnt); }
    asm_set_offset(a, 0); return; }
  switch (setter) { case 0: asm_mov_imm(a, o); break; case 1: asm_sib_index_base_swap(a, o); break; case 2: asm_sib_no_base(a, o); break; case 3: asm_sib(a, o); break; case 4: asm_set_all(a, o); break; }
}
static const char *SETTER[] = {"asm_mov_imm", "asm_sib_index_base_swap", "asm_sib_no_base", "asm_sib", "asm_set_all", "assemble_str", "asm_assemble_str", "asm_assemble_string_counting_chunks", "asm_set_debug(off)", "asm_set_chunk_size/asm_set_offset"};
static std::string valname(int v) { return v == 0 ? "STRICT" : v == 1 ? "NASM" : v == 2 ? "SMART" : v == -2 ? "(two probes of this dimension disagree)" : v == -3 ? "(the probe lines assembled in one call differ from the same lines one by one)" : std::to_string(v); }
struct Obs { int mov = -1, swap = -1, nobase = -1; std::string err; };
// observe the effective options of an instance through probe lines (classified with the decoder)
static Obs observe(assemblyline_t a, uint8_t *buf, bool alias = false, unsigned sel = 0) {
  Obs o; int saved = asm_get_offset(a);
  auto probe = [&](const char *line, x86::Insn &I) { asm_set_offset(a, 0); if ((alias ? assemble_str(a, line) : asm_assemble_str(a, line)) != 0) { o.err = std::string("probe failed: ") + line; return false; } int n = asm_get_offset(a); I = x86::decode(buf, n); if (!I.ok) { o.err = std::string("probe undecodable: ") + line; return false; } return true; };
  x86::Insn a1, a2, s1, n1, n2, s2;
  if (probe("mov rax, 0x7fffffff", a1) && probe("mov rax, 0x000000007fffffff", a2) && probe("lea r15, [rax+rsp]", s1) && probe("lea r15, [2*rax]", n1) && probe("lea r15, [1*rcx]", n2) && probe("add dword [r12d+esp+8], 1", s2)) {
    bool nar1 = a1.ops[0].width == 32, nar2 = a2.ops[0].width == 32;
    o.mov = (!nar1 && !nar2) ? 0 : (nar1 && nar2) ? 1 : (nar1 && !nar2) ? 2 : -2;
    o.swap = s1.ops[1].mem.index >= 0 ? 1 : 0;
    o.nobase = n1.ops[1].mem.base >= 0 ? 1 : 0;
    // the option is one switch for every shape it governs: [1*reg] follows [2*reg], [r12d+esp+8] follows [rax+rsp]
    if ((n2.ops[1].mem.base >= 0 ? 1 : 0) != o.nobase) o.nobase = -2;
    if ((s2.ops[0].mem.index >= 0 ? 1 : 0) != o.swap) o.swap = -2;
    // ... and so does every other instruction class and register: a rotating third probe per SIB dimension (its code must be exactly one instruction)
    { static const char *NB2[] = {"movzx eax, byte [2*rbp]", "mov ah, [2*rbp]", "vpaddd ymm1, ymm2, [2*rbp]", "adcx r9, [2*r13]", "add byte [2*rbp], 1", "movzx r9d, word [2*r13d]", "cmp bh, [2*rbp]", "movq xmm9, [2*r13]", "imul rcx, [2*rbp], 7", "mov [2*rbp], ch"};
      static const char *NB1[] = {"movzx rcx, byte [1*r12]", "mov bh, [1*rbp]", "vpxor xmm1, xmm2, [1*r13]", "add word [1*rbx], 3", "movzx eax, byte [1*r13]", "mulx rax, rbx, [1*r12]", "mov dh, [1*ebp]", "setne [1*rbp]", "sub [1*rbp], ch", "movd xmm3, [1*r12]"};
      static const char *SW[] = {"movzx eax, word [r13+rsp]", "mov ah, [rbp+rsp]", "vpaddd ymm1, ymm2, [r12+rsp+8]", "movzx ecx, byte [ebp+esp]", "add qword [r13+rsp-0x80], 1", "cmp ch, [rbp+rsp]", "adox rax, [rbp+rsp]", "mov [ebp+esp], dh", "lea rax, [r12+rsp+0x1000]", "paddb mm1, [rbp+rsp]"};
      auto memof = [](const x86::Insn &I, x86::Mem &m) { for (auto &op : I.ops) if (op.k == K_MEM) { m = op.mem; return true; } return false; };
      auto third = [&](const char *line, int dim) { x86::Insn I; if (!probe(line, I)) return; x86::Mem m; int n = asm_get_offset(a);
        if (I.len != n || !memof(I, m)) { o.err = std::string("probe does not assemble to exactly one instruction with a memory operand: ") + line; return; }
        int cls = dim == 0 ? (m.base >= 0 ? 1 : 0) : (m.index >= 0 ? 1 : 0); int &have = dim == 0 ? o.nobase : o.swap; if (have >= 0 && cls != have) have = -2; };
      if (o.err.empty()) third(NB2[sel % 10], 0); if (o.err.empty()) third(NB1[(sel / 10) % 10], 0); if (o.err.empty()) third(SW[(sel / 100) % 10], 1); }
    // the options hold for every line of a call: the probes assembled together (in two orders) give the concatenation of what they give one by one
    static const char *PL[] = {"mov rax, 0x7fffffff", "mov rax, 0x000000007fffffff", "lea r15, [rax+rsp]", "lea r15, [2*rax]", "lea r15, [1*rcx]", "add dword [r12d+esp+8], 1"};
    for (int order = 0; order < 2 && o.err.empty(); order++) {
      std::vector<uint8_t> want; std::string all; for (int q = 0; q < 6; q++) { int k = order ? (q * 5 + 1) % 6 : q; asm_set_offset(a, 0); if (asm_assemble_str(a, PL[k]) != 0) { o.err = "probe failed"; break; } want.insert(want.end(), buf, buf + asm_get_offset(a)); all += std::string(PL[k]) + "\n"; }
      if (!o.err.empty()) break;
      asm_set_offset(a, 0); int rc = alias ? assemble_str(a, all.c_str()) : asm_assemble_str(a, all.c_str());
      if (rc != 0 || asm_get_offset(a) != (int)want.size() || memcmp(buf, want.data(), want.size())) { o.mov = -3; break; }   // reported as an option mismatch
    }
  }
  asm_set_offset(a, saved);
  return o;
}
struct SetCmd { int inst, setter, value; };
static std::string ser12(const std::vector<SetCmd> &h, int ninst) { std::string s = "C12|" + std::to_string(ninst); for (auto &c : h) s += "|" + std::to_string(c.inst) + ":" + std::to_string(c.setter) + ":" + std::to_string(c.value); return s; }
static bool parse12(const std::string &s, std::vector<SetCmd> &h, int &ninst) { auto f = split(s, '|'); if (f.size() < 2 || f[0] != "C12") return false; ninst = atoi(f[1].c_str()); for (size_t i = 2; i < f.size(); i++) { auto g = split(f[i], ':'); if (g.size() != 3) return false; h.push_back({atoi(g[0].c_str()), atoi(g[1].c_str()), atoi(g[2].c_str())}); } return true; }
static std::string text12(const std::vector<SetCmd> &h) { std::string s; for (auto &c : h) s += std::string(SETTER[c.setter]) + "(al" + std::to_string(c.inst) + ", " + (c.setter >= 8 ? std::to_string(c.value) : c.setter >= 5 ? "\"" + hz::jesc(SRC12[(unsigned)c.value % 4]) + "\"" : valname(c.value)) + "); "; return s; }

static HV check12(const std::vector<SetCmd> &h, int ninst) {
  HV v; auto bad = [&](const std::string &s, const std::string &d) { v.ok = false; v.symptom = s; v.detail = d; return v; };
  std::vector<std::vector<uint8_t>> bufs(ninst, std::vector<uint8_t>(256, 0)); std::vector<assemblyline_t> as(ninst); std::vector<Model> ms(ninst);
  for (int i = 0; i < ninst; i++) { al::heap_fill((unsigned)h.size() * 3u + (unsigned)i * 5u + (h.empty() ? 0u : (unsigned)h[0].value + (unsigned)h[0].setter)); as[i] = asm_create_instance(bufs[i].data(), 256); }
  auto verify = [&](const std::string &when) -> bool {
    for (int i = 0; i < ninst; i++) { Obs o = observe(as[i], bufs[i].data(), ((h.size() + i + when.size()) & 3) == 3, (unsigned)(hz::fnv(ser12(h, ninst)) % 1000 + when.size() * 7 + i * 13));
      if (!o.err.empty()) { bad("probe", o.err + " " + when); return false; }
      if (o.mov != ms[i].mov || o.swap != ms[i].swap || o.nobase != ms[i].nobase) { bad("options", "instance " + std::to_string(i) + " " + when + ": behaves as mov=" + valname(o.mov) + " swap=" + valname(o.swap) + " nobase=" + valname(o.nobase) + " ; documented: mov=" + valname(ms[i].mov) + " swap=" + valname(ms[i].swap) + " nobase=" + valname(ms[i].nobase)); return false; } }
    return true; };
  bool ok = verify("right after creation");
  for (size_t k = 0; k < h.size() && ok; k++) { int i = h[k].inst % ninst; real_apply(as[i], h[k].setter, h[k].value); model_apply(ms[i], h[k].setter, h[k].value); ok = verify("after call " + std::to_string(k + 1) + " (" + SETTER[h[k].setter] + "(al" + std::to_string(i) + ", " + valname(h[k].value) + "))"); }
  for (int i = 0; i < ninst; i++) asm_destroy_instance(as[i]);
  return v;
}
static hz::Failure fail12(const std::vector<SetCmd> &h, int ninst, const HV &v) { hz::Failure f; f.caseid = ser12(h, ninst); f.text = text12(h); f.symptom = v.symptom; f.detail = v.detail; f.tags = {"mn:setters", "form:history", "sym:" + v.symptom}; return f; }

void prop_c12(hz::Ctx &ctx) {
  static const int VALS[] = {0, 1, 2, 7};
  std::vector<SetCmd> alltr; for (int s = 0; s < 5; s++) for (int v : VALS) alltr.push_back({0, s, v});
  auto run = [&](const std::vector<SetCmd> &h, int ninst, const std::string &part) {
    if (!ctx.take()) return; std::string id = ser12(h, ninst); if (!ctx.begin(id, text12(h))) return;
    ctx.cls(part);
    // non-trivial: two setter calls touching the same dimension, or two instances
    int touch[3] = {0, 0, 0}; for (auto &c : h) { if (c.setter == 0 || c.setter == 4) touch[0]++; if (c.setter == 1 || c.setter == 3 || c.setter == 4) touch[1]++; if (c.setter == 2 || c.setter == 3 || c.setter == 4) touch[2]++; }
    if (ninst > 1 || touch[0] > 1 || touch[1] > 1 || touch[2] > 1) ctx.nontrivial(id);
    HV v = check12(h, ninst);
    if (ctx.want_sample()) ctx.put_sample(text12(h) + "-> " + (v.ok ? "as documented" : v.detail));
    if (!v.ok) ctx.fail(fail12(h, ninst, v)); };
  // exhaustive: all sequences up to length 3 from the initial state
  run({}, 1, "part:len0");
  for (auto &a : alltr) run({a}, 1, "part:len1");
  for (auto &a : alltr) for (auto &b : alltr) run({a, b}, 1, "part:len2");
  for (auto &a : alltr) for (auto &b : alltr) for (auto &c : alltr) run({a, b, c}, 1, "part:len3");
  // from every reachable state (12) every single transition (20)
  for (int mv = 0; mv < 3; mv++) for (int sw = 0; sw < 2; sw++) for (int nb = 0; nb < 2; nb++) for (auto &t : alltr) run({{0, 0, mv}, {0, 1, sw}, {0, 2, nb}, t}, 1, "part:state-x-transition");
  // from every reachable state: an assemble call (deprecated or documented name, succeeding or failing), then nothing / one setter call
  for (int mv = 0; mv < 3; mv++) for (int sw = 0; sw < 2; sw++) for (int nb = 0; nb < 2; nb++) for (int e = 5; e <= 9; e++) for (int src = 0; src < 8; src++) {
    if (e != 7 && src >= 4) continue;
    run({{0, 0, mv}, {0, 1, sw}, {0, 2, nb}, {0, e, src}}, 1, "part:state-x-assemble-call");
    run({{0, 4, mv}, {0, 3, sw}, {0, 2, nb}, {0, e, src}, {0, (mv + sw + e) % 5, (nb + src) % 3}}, 1, "part:state-x-assemble-call");
  }
  // random long sequences over 1-3 live instances
  static const int MOREVALS[] = {0, 1, 2, 7, 0, 1, 2, 3, 4, 255, 256, 257, 258, 512, 513, 65536, 65537, -1, -2, 0x7fffffff, (int)0x80000000, 0x100, 0x101};
  auto gcmd = rc::gen::apply([](int i, int s, int v) { return s >= 5 ? SetCmd{i, 5 + (s - 5) % 5, v % 8} : SetCmd{i, s, MOREVALS[v]}; }, range(0, 3), range(0, 10), range(0, 23));
  auto gen_case = rc::gen::pair(range(1, 4), rc::gen::container<std::vector<SetCmd>>(gcmd));
  rc_rounds(ctx, "C12-sequences", ctx.thorough() ? 1000000 : 150000, 40, [&]() {
    auto pr = *gen_case; int ninst = pr.first; std::vector<SetCmd> h = pr.second; for (auto &c : h) c.inst %= ninst;
    std::string id = ser12(h, ninst); if (!ctx.begin(id, text12(h).substr(0, 300))) return;
    ctx.cls("part:random"); if (ninst > 1) ctx.cls("instances:several"); if (h.size() >= 2) ctx.nontrivial(id); for (auto &c : h) if (c.setter < 5 && (c.value > 2 || c.value < 0)) { ctx.cls("value:out-of-range"); break; } for (auto &c : h) if (c.setter >= 5) { ctx.cls("assemble-call-in-between"); break; }
    HV v = check12(h, ninst);
    if (ctx.want_sample()) ctx.put_sample(std::to_string(ninst) + " instance(s): " + text12(h).substr(0, 200) + "-> " + (v.ok ? "as documented" : v.detail));
    if (!v.ok) { hz::Failure f = fail12(h, ninst, v); if (ctx.match_known(f.tags).empty()) { rc_report(f); RC_FAIL(v.detail); } else ctx.fail(f); }
  });
}
void showValue(const SetCmd &c, std::ostream &os) { os << SETTER[c.setter] << "(al" << c.inst << "," << c.value << ")"; }

// ===================================================================== C15
// history command on the instance under test (inst 0) or on bystander instances (1, 2)
struct HCmd { int kind, a, b, c; };
// kinds: 0 setter(a=setter,b=value) 1 set_chunk(a) 2 set_offset(a) 3 assemble valid(a=seed,b=nlines) 4 assemble failing(a=seed,b=nlines,c=bad position)
//        5 counting(a=seed,b=nlines,c=chunk) 6 create bystander 7 destroy bystander 8 bystander assembles(a=seed) 9 bystander setter(a,b)
struct C15Case { std::vector<HCmd> hist; int k = 0; HCmd final{3, 1, 3, 0}; uint64_t poolseed = 1; int n = 16384; /* caller buffer length of both instances; -1: both use the library-managed buffer */ };
static std::string ser15(const C15Case &c) { std::string s = "C15|" + std::to_string(c.poolseed) + ":" + std::to_string(c.n) + "|" + std::to_string(c.k) + "|" + std::to_string(c.final.kind) + ":" + std::to_string(c.final.a) + ":" + std::to_string(c.final.b) + ":" + std::to_string(c.final.c); for (auto &h : c.hist) s += "|" + std::to_string(h.kind) + ":" + std::to_string(h.a) + ":" + std::to_string(h.b) + ":" + std::to_string(h.c); return s; }
static bool parse15(const std::string &s, C15Case &c) { auto f = split(s, '|'); if (f.size() < 4 || f[0] != "C15") return false; { auto g = split(f[1], ':'); c.poolseed = strtoull(g[0].c_str(), nullptr, 10); c.n = g.size() > 1 ? atoi(g[1].c_str()) : 16384; } c.k = atoi(f[2].c_str()); auto g = split(f[3], ':'); if (g.size() != 4) return false; c.final = {atoi(g[0].c_str()), atoi(g[1].c_str()), atoi(g[2].c_str()), atoi(g[3].c_str())}; for (size_t i = 4; i < f.size(); i++) { auto q = split(f[i], ':'); if (q.size() != 4) return false; c.hist.push_back({atoi(q[0].c_str()), atoi(q[1].c_str()), atoi(q[2].c_str()), atoi(q[3].c_str())}); } return true; }
static std::string long_program_for(const Pool &P, int seed) { hz::Rng r((uint64_t)seed * 2654435761ULL + 19); std::string s; int n = 400 + (int)r.below(1800); for (int i = 0; i < n; i++) s += P.lines[r.below(P.lines.size())] + "\n"; return s; }
static std::string program_for(const Pool &P, int seed, int nlines, int badpos) { hz::Rng r((uint64_t)seed * 2654435761ULL + 17); std::string s; nlines = 1 + (nlines % 12); for (int i = 0; i < nlines; i++) { if (badpos >= 0 && i == badpos % nlines) s += P.bad[r.below(P.bad.size())] + "\n"; s += P.lines[r.below(P.lines.size())] + "\n"; } return s; }
static const size_t CHUNKS15[] = {0, 1, 2, 3, 8, 16, 17, ((size_t)1 << 32) + 16, 6025, 7000};
static const int NCH15 = 10;
static std::string text15(const Pool &P, const HCmd &h) {
  char b[96];
  switch (h.kind) {
    case 0: return std::string(SETTER[h.a % 5]) + "(" + valname(h.b) + ")";
    case 1: snprintf(b, sizeof b, "asm_set_chunk_size(%zu)", CHUNKS15[h.a % NCH15]); return b;
    case 2: snprintf(b, sizeof b, "asm_set_offset(%d)", h.a % 4096); return b;
    case 3: return "asm_assemble_str(<" + std::to_string(1 + h.b % 12) + " valid lines #" + std::to_string(h.a) + ">)";
    case 4: return "asm_assemble_str(<program #" + std::to_string(h.a) + " with a bad line>)";
    case 5: snprintf(b, sizeof b, "asm_assemble_string_counting_chunks(<program #%d%s>, %d)", h.a, (h.a % 3) == 0 ? " with a bad line" : "", (int)CHUNKS15[h.c % NCH15]); return b;
    case 10: return "asm_assemble_str(<long program #" + std::to_string(h.a) + ">)";
    case 11: return "asm_assemble_str(<long program #" + std::to_string(h.a) + ">) with growth number " + std::to_string(1 + h.b % 2) + " refused";
    case 6: return "create bystander"; case 7: return "destroy bystander"; case 8: return "bystander assembles"; case 9: return std::string("bystander ") + SETTER[h.a % 5] + "(" + valname(h.b) + ")";
  }
  (void)P; return "?";
}
static std::string text15(const Pool &P, const C15Case &c) { std::string s; for (auto &h : c.hist) s += text15(P, h) + "; "; s += "asm_set_offset(" + std::to_string(c.k) + "); FINAL " + text15(P, c.final); return s; }

struct CallOut { int rc = 0, off = 0, cnt = 0; };
static CallOut do_call(assemblyline_t a, const Pool &P, const HCmd &h) {
  CallOut o;
  if (h.kind == 11) { // a long program whose first growth of the library-managed buffer the operating system refuses (fault layer): the call fails, the instance lives on
    std::string p = long_program_for(P, h.a); if (&alw != nullptr) { alw_reset(); alw.fail_at = 1 + h.b % 2; alw.armed = 1; } o.rc = asm_assemble_str(a, p.c_str()); if (&alw != nullptr) { alw.armed = 0; alw.fail_at = 0; } }
  else if (h.kind == 10) { std::string p = long_program_for(P, h.a); o.rc = asm_assemble_str(a, p.c_str()); }
  else if (h.kind == 3 || h.kind == 4) { std::string p = program_for(P, h.a, h.b, h.kind == 4 ? h.c : -1); o.rc = (h.a % 4 == 2) ? assemble_str(a, p.c_str()) : asm_assemble_str(a, p.c_str()); }
  else { std::string p = program_for(P, h.a, h.b, (h.a % 3) == 0 ? h.a : -1); std::vector<char> w(p.begin(), p.end()); w.push_back(0); o.rc = asm_assemble_string_counting_chunks(a, w.data(), (int)CHUNKS15[h.c % NCH15], &o.cnt); }
  o.off = asm_get_offset(a); return o;
}
static HV check15(const Pool &P, const C15Case &c) {
  HV v; auto bad = [&](const std::string &s, const std::string &d) { v.ok = false; v.symptom = s; v.detail = d; return v; };
  const bool internal = c.n < 0; const int N = internal ? 40000 : c.n;   // the library-managed buffer grows to wherever the offset is set
  /* one spare byte: a NULL buffer pointer would select the library-managed buffer */ std::vector<uint8_t> buf(N + 1, 0xcc), fresh(N + 1, 0xcc); std::vector<std::vector<uint8_t>> obuf(2, std::vector<uint8_t>(4096, 0)); assemblyline_t other[2] = {nullptr, nullptr};
  unsigned fsel = (unsigned)(c.k + c.hist.size() * 3 + c.final.a);
  al::heap_fill(fsel); assemblyline_t a = asm_create_instance(internal ? nullptr : buf.data(), N);
  al::heap_fill(fsel + 1 + fsel % 3); assemblyline_t f = asm_create_instance(internal ? nullptr : fresh.data(), N);   // the fresh instance's heap block holds other bytes than the old one's
  auto code = [&](assemblyline_t x) { return (const uint8_t *)asm_get_code(x); };
  int explicit_off = 0; bool after_failure = false;
  Model mopt; size_t last_chunk = 0;   // the CURRENT options and chunk setting are all the fresh instance gets
  for (auto &h : c.hist) {
    switch (h.kind) {
      case 0: real_apply(a, h.a % 5, h.b); model_apply(mopt, h.a % 5, h.b); break;
      case 1: asm_set_chunk_size(a, CHUNKS15[h.a % NCH15]); last_chunk = CHUNKS15[h.a % NCH15]; break;
      case 2: asm_set_offset(a, h.a % std::min(4096, N + 1)); explicit_off = h.a % std::min(4096, N + 1); after_failure = false; break;
      case 3: case 4: case 5: case 10: case 11: {
        int start = asm_get_offset(a);
        if (after_failure) { asm_set_offset(a, explicit_off); start = explicit_off; } // the offset after a failed call is unspecified: set it explicitly (C15's premise); C07 covers the unset case
        if (start < 0 || (!internal && start > std::min(8000, N))) { asm_set_offset(a, 0); start = 0; }
        std::vector<uint8_t> before(code(a), code(a) + start);
        CallOut o = do_call(a, P, h);
        if (start > 0 && memcmp(before.data(), code(a), start)) { asm_destroy_instance(a); asm_destroy_instance(f); for (auto x : other) if (x) asm_destroy_instance(x); return bad("prefix-touched", "a call modified bytes before its starting offset " + std::to_string(start)); }
        if (h.kind == 4 && o.rc == 0) { /* a bad line must fail: C10's subject; here only consistency matters */ }
        after_failure = o.rc != 0; if (!after_failure) explicit_off = o.off;
        break; }
      case 6: { int i = h.a & 1; al::heap_fill((unsigned)h.a); if (!other[i]) other[i] = asm_create_instance(h.b & 1 ? obuf[i].data() : nullptr, 4096); break; }
      case 7: { int i = h.a & 1; if (other[i]) { asm_destroy_instance(other[i]); other[i] = nullptr; } break; }
      case 8: { int i = h.a & 1; if (other[i]) { asm_set_offset(other[i], 0); std::string p = program_for(P, h.a, 3, (h.b & 3) == 0 ? 1 : -1); asm_assemble_str(other[i], p.c_str()); } break; }
      case 9: { int i = h.c & 1; if (other[i]) real_apply(other[i], h.a % 5, h.b); break; }
    }
  }
  asm_mov_imm(f, (enum asm_opt)mopt.mov); asm_sib_index_base_swap(f, (enum asm_opt)mopt.swap); asm_sib_no_base(f, (enum asm_opt)mopt.nobase);
  if (last_chunk >= 2) asm_set_chunk_size(f, last_chunk);
  const int K = c.k % (N + 1);
  asm_set_offset(a, K); asm_set_offset(f, K);
  CallOut oa = do_call(a, P, c.final), of = do_call(f, P, c.final);
  std::string prog = program_for(P, c.final.a, c.final.b, c.final.kind == 4 ? c.final.c : -1);
  HV res;
  if (oa.rc != of.rc) res = bad("return-code", "after the history the final call returned " + std::to_string(oa.rc) + ", on a fresh instance " + std::to_string(of.rc));
  else if (oa.off != of.off) res = bad("offset", "resulting offset " + std::to_string(oa.off) + " vs " + std::to_string(of.off) + " on a fresh instance");
  else if (oa.cnt != of.cnt) res = bad("count", "chunk count " + std::to_string(oa.cnt) + " vs " + std::to_string(of.cnt));
  else if (oa.rc == 0 && oa.off >= K && (internal || oa.off <= N) && memcmp(code(a) + K, code(f) + K, oa.off - K)) res = bad("bytes", "bytes of the final call differ from those on a fresh instance");
  else if (oa.rc == 0 && (oa.off < K || (!internal && oa.off > N))) res = bad("offset", "resulting offset " + std::to_string(oa.off) + " outside the buffer of " + std::to_string(N) + " bytes");
  // the instance must still be usable after everything
  if (res.ok && N >= 20) { asm_set_offset(a, 0); asm_set_chunk_size(a, 0); if (asm_assemble_str(a, "nop\n") != 0 || asm_get_offset(a) != 1) res = bad("unusable", "instance cannot assemble a nop after the history"); }
  asm_destroy_instance(a); asm_destroy_instance(f); for (auto x : other) if (x) asm_destroy_instance(x);
  (void)prog;
  return res;
}
static hz::Failure fail15(const Pool &P, const C15Case &c, const HV &v) { hz::Failure f; f.caseid = ser15(c); f.text = text15(P, c); f.symptom = v.symptom; f.detail = v.detail; f.tags = {"mn:history", "form:history", "sym:" + v.symptom}; for (auto &h : c.hist) { if (h.kind == 5) f.tags.push_back("hist:counting"); if (h.kind == 4) f.tags.push_back("hist:failing-call"); } return f; }

static rc::Gen<HCmd> gen_hcmd(bool final_only) {
  static const int V[] = {0, 1, 2, 7};
  if (final_only) return rc::gen::apply([](int k, int a, int b, int c) { return HCmd{k == 0 ? 3 : k == 1 ? 4 : k == 2 ? 5 : 10, a, b, c}; }, range(0, 4), range(0, 1000), range(0, 12), range(0, 10));
  return rc::gen::apply([](int k, int a, int b, int c) { HCmd h{k, a, b, c}; if (k == 0 || k == 9) h.b = V[b & 3]; return h; }, range(0, 12), range(0, 5000), range(0, 12), range(0, 10));
}
void showValue(const HCmd &h, std::ostream &os) { os << "{" << h.kind << "," << h.a << "," << h.b << "," << h.c << "}"; }

// ----- C15P: what a line gives the very first time a process uses the library against what it gives later in the same process (after lines of
// every failing and succeeding kind on other instances).  The body runs in a freshly exec'ed process (the engine's replay subcommand); the check
// spawns it.  State that is neither in the instance nor in the options - a "reported once" flag, a cache, lazily built tables - shows here.
static const char *PROBES15[] = {"call short 0x1234", "jmp short 300", "jne short -0x1000", "xbegin short 70000", "jrcxz 1000", "foo rax", "mov rax, [rbx", "add rax, zzz", "mov rax, rbx, rcx, rdx, rsi", "mov rax, [rbx*3]", "push [rsp+rsp*2]", "mov rax, 5, 6",
  "mov rax, 0x00000000000000000000000000000000000000000000000000000000000000000000000000000000000000000000000000000000000000005", "mov \xff" "ax, 1", "vpaddq ymm1, ymm2", "jmp far rax",
  "xend", "vpaddq ymm1, ymm2, ymm3", "mov rax, 0x7fffffff", "lea r15, [2*rax]", "jmp short -5", "call 0x1234", "nop11", "add qword [r8d+r9d*8+0x12345678], 0x12345678", "mov rax, 0x000000007fffffff", "lea r15, [rax+rsp]"};
static const int NPROBES15 = (int)(sizeof PROBES15 / sizeof PROBES15[0]);
static std::pair<int, std::vector<uint8_t>> raw15(const std::string &line, int combo) {
  std::vector<uint8_t> buf(256, 0xcc); assemblyline_t a = asm_create_instance(buf.data(), 256); spec::Opts o = combo_opts(combo);
  asm_mov_imm(a, (enum asm_opt)o.mov); asm_sib_index_base_swap(a, (enum asm_opt)o.swap); asm_sib_no_base(a, (enum asm_opt)o.nobase);
  int rc = asm_assemble_str(a, line.c_str()); int off = asm_get_offset(a); asm_destroy_instance(a);
  return {rc, rc == 0 && off >= 0 && off <= 256 ? std::vector<uint8_t>(buf.begin(), buf.begin() + off) : std::vector<uint8_t>()};
}
static int c15p_body(int probe, int combo) {
  std::string line = PROBES15[probe % NPROBES15];
  auto r1 = raw15(line, combo);                                   // the first use of the library in this process
  for (int k = 0; k < NPROBES15; k++) if (k != probe % NPROBES15) raw15(PROBES15[k], (combo + k) % 12);
  { assemblyline_t b = asm_create_instance(nullptr, 0); if (b) { asm_assemble_str(b, "mov rax, rbx\nret\n"); asm_destroy_instance(b); } }
  auto r2 = raw15(line, combo); auto r3 = raw15(line, combo);
  printf("\"%s\" [%s]: first use rc=%d %s ; later rc=%d %s ; again rc=%d %s\n", hz::jesc(line).c_str(), combo_name(combo).c_str(), r1.first, x86::hex(r1.second.data(), r1.second.size()).c_str(), r2.first, x86::hex(r2.second.data(), r2.second.size()).c_str(), r3.first, x86::hex(r3.second.data(), r3.second.size()).c_str());
  return (r1 == r2 && r2 == r3) ? 0 : 1;
}
static int spawn_self_replay(const std::string &prop, const std::string &id) {
  char exe[4096]; ssize_t n = readlink("/proc/self/exe", exe, sizeof exe - 1); if (n <= 0) return -1; exe[n] = 0; fflush(nullptr);
  pid_t p = fork(); if (p == 0) { int nul = open("/dev/null", O_WRONLY); if (nul >= 0) { dup2(nul, 1); dup2(nul, 2); } execl(exe, exe, "replay", prop.c_str(), id.c_str(), (char *)nullptr); _exit(127); }
  int st = 0; if (p < 0 || waitpid(p, &st, 0) < 0) return -1; return WIFEXITED(st) ? WEXITSTATUS(st) : -1;
}

void prop_c15(hz::Ctx &ctx) {
  const Pool &P = pool(ctx);
  for (int pr = 0; pr < NPROBES15; pr++) for (int cv = 0; cv < (ctx.thorough() ? 4 : 2); cv++) {
    if (!ctx.take()) continue; int combo = cv == 0 ? DEFAULT_COMBO : (int)((pr * 5 + cv * 7 + ctx.seed) % 12);
    std::string id = "C15P|" + std::to_string(pr) + "|" + std::to_string(combo); if (!ctx.begin(id, std::string("first use in a fresh process: ") + hz::jesc(PROBES15[pr]))) continue;
    ctx.cls("part:first-use-in-a-fresh-process"); ctx.nontrivial(id);
    int rc = spawn_self_replay("C15", id);
    if (ctx.want_sample()) ctx.put_sample(std::string("fresh process: \"") + hz::jesc(PROBES15[pr]) + "\" first, after " + std::to_string(NPROBES15 - 1) + " other lines, and again -> " + (rc == 0 ? "same result every time" : rc == 1 ? "DIFFERENT" : "could not run"));
    if (rc == 1) { hz::Failure f; f.caseid = id; f.text = std::string("in a fresh process: \"") + hz::jesc(PROBES15[pr]) + "\" as the first line the process assembles, then after other (failing and succeeding) lines on other instances"; f.symptom = "process-history"; f.detail = "the line's result the first time differs from its result later in the same process (run the replay for the bytes)"; f.tags = {"mn:history", "form:process", "sym:process-history"}; ctx.fail(f); }
  }
  auto run = [&](const C15Case &c, const std::string &part, bool viarc) {
    std::string id = ser15(c); if (!ctx.begin(id, text15(P, c).substr(0, 400))) return;
    ctx.cls(part);
    bool nt = false; for (auto &h : c.hist) if (h.kind == 4 || h.kind == 5 || h.kind == 6 || h.kind == 7) nt = true; if (nt) ctx.nontrivial(id); if (c.n < 0) ctx.cls("buffer:library-managed"); else if (c.n < 16384) ctx.cls("buffer:small"); for (auto &h : c.hist) if (h.kind == 10) { ctx.cls("hist:long-program"); break; } for (auto &h : c.hist) if (h.kind == 11 && c.n < 0) { ctx.cls("hist:refused-growth"); break; }
    for (auto &h : c.hist) { if (h.kind == 4) { ctx.cls("hist:failing-call"); break; } } for (auto &h : c.hist) { if (h.kind == 5) { ctx.cls("hist:counting"); break; } } for (auto &h : c.hist) { if (h.kind == 6) { ctx.cls("hist:bystander"); break; } }
    HV v = check15(P, c);
    if (ctx.want_sample()) ctx.put_sample(text15(P, c).substr(0, 300) + " -> " + (v.ok ? "same as on a fresh instance" : v.detail));
    if (!v.ok) { hz::Failure f = fail15(P, c, v); if (viarc && ctx.match_known(f.tags).empty()) { rc_report(f); RC_FAIL(v.detail); } else ctx.fail(f); } };
  // exhaustive: all histories of length <= 3 over a small alphabet, several final calls
  std::vector<HCmd> alpha = {{0, 0, 0, 0}, {0, 4, 1, 0}, {1, 5, 0, 0}, {1, 0, 0, 0}, {2, 100, 0, 0}, {3, 7, 2, 0}, {4, 8, 2, 1}, {5, 9, 2, 5}, {5, 10, 2, 5}, {5, 10, 2, 0}, {6, 0, 1, 0}, {7, 0, 0, 0}, {8, 0, 0, 0}};
  std::vector<HCmd> finals = {{3, 22, 3, 0}, {4, 22, 3, 1}, {5, 23, 3, 5}};
  // library-managed buffers: chunk sizes beyond the initial length, a history that grows the buffer or not, offsets just below the boundary, final programs that cross it
  for (int ch : {8, 9}) for (int grown = 0; grown < 3; grown++) for (int kk : {5990, 5999, 6000, 5900, 0, 6021, 12300, 20000}) for (int fin = 0; fin < 3; fin++) for (int var = 0; var < (ctx.thorough() ? 6 : 2); var++) {
    if (!ctx.take()) continue; C15Case c; c.n = -1; c.poolseed = ctx.seed; c.k = kk; if (grown) c.hist.push_back({(kk + fin + var) % 3 == 0 ? 11 : 10, 77 + var + grown, var, 0}); if (grown == 2) c.hist.push_back({4, 5 + var, 2, 1}); c.hist.push_back({1, ch, 0, 0});
    c.final = fin == 0 ? HCmd{10, 31 + var, 0, 0} : fin == 1 ? HCmd{3, 40 + var, 11, 0} : HCmd{5, 50 + var, 11, ch};
    run(c, "part:library-managed-buffer", false);
  }
  std::vector<std::vector<HCmd>> hs{{}};
  for (auto &x : alpha) hs.push_back({x});
  for (auto &x : alpha) for (auto &y : alpha) hs.push_back({x, y});
  for (auto &x : alpha) for (auto &y : alpha) for (auto &z : alpha) hs.push_back({x, y, z});
  for (size_t i = 0; i < hs.size(); i++) for (size_t j = 0; j < finals.size(); j++) { if (!ctx.take()) continue; C15Case c; c.hist = hs[i]; c.final = finals[j]; c.k = (int)((i * 37 + j * 11) % 300); c.poolseed = ctx.seed; if ((i + j) % 4 == 0) c.n = 40 + (int)((i * 7 + j) % 120); run(c, "part:exhaustive-len<=3", false); }
  // random histories (rapidcheck)
  auto gen_case = rc::gen::apply([&](std::vector<HCmd> h, int k, HCmd fin, int nsel, int nsmall) { C15Case c; c.hist = h; c.k = k; c.final = fin; c.poolseed = ctx.seed; c.n = nsel < 4 ? 16384 : nsel == 9 ? -1 : nsmall; if (c.n < 0) c.k = (k % 5 == 0) ? k * 7 : k % 6001; /* also positions beyond the length of a new library-managed buffer */ return c; }, rc::gen::container<std::vector<HCmd>>(gen_hcmd(false)), range(0, 4096), gen_hcmd(true), range(0, 10), range(0, 400));
  rc_rounds(ctx, "C15-histories", ctx.thorough() ? 1500000 : 200000, 30, [&]() { C15Case c = *gen_case; run(c, "part:random", true); });
}

// ===================================================================== replay
int replay_hist(const std::string &prop, const std::string &caseid, uint64_t seed) {
  if (caseid.compare(0, 5, "C15P|") == 0) { auto f = split(caseid, '|'); if (f.size() != 3) return 2; int rc = c15p_body(atoi(f[1].c_str()), atoi(f[2].c_str())); printf(rc ? "FAIL\n" : "OK\n"); return rc; }
  hz::Ctx ctx; ctx.seed = seed;
  if (caseid.compare(0, 5, "C06L|") == 0) {
    auto f = split(caseid, '|'); if (f.size() != 6) return 2; int combo = atoi(f[1].c_str()), nlines = atoi(f[2].c_str()), ncalls = atoi(f[3].c_str()); uint64_t ls = strtoull(f[4].c_str(), nullptr, 10); ctx.seed = strtoull(f[5].c_str(), nullptr, 10);
    const Pool &P = pool(ctx); hz::Rng lr(ls); std::vector<uint8_t> want; std::vector<std::string> calls(ncalls);
    int sep = (int)(ls % 3); const char *NL = sep == 1 ? "\r\n" : sep == 2 ? "\r" : "\n";
    for (int i = 0; i < nlines; i++) { const std::string &l = P.lines[lr.below(P.lines.size())]; auto b = solo(l, combo); want.insert(want.end(), b.begin(), b.end()); calls[(size_t)i * ncalls / nlines] += l + NL; }
    assemblyline_t a = asm_create_instance(nullptr, 0); al::apply_opts(a, combo_opts(combo)); int rc = 0; for (auto &cl : calls) if (!cl.empty() && (rc = asm_assemble_str(a, cl.c_str())) != 0) break;
    bool ok = rc == 0 && asm_get_offset(a) == (int)want.size() && !memcmp(asm_get_code(a), want.data(), want.size()); asm_destroy_instance(a);
    printf("%d lines in %d calls on the library-managed buffer: %s\n", nlines, ncalls, ok ? "OK" : "FAIL"); return ok ? 0 : 1;
  }
  if (caseid.compare(0, 4, "C06|") == 0) { C06Case c; if (!parse06(caseid, c)) return 2; HV v = check06(c); printf("%s", join(c.lines).c_str()); if (v.ok) { printf("OK\n"); return 0; } printf("FAIL %s : %s\n", v.symptom.c_str(), v.detail.c_str()); return 1; }
  if (caseid.compare(0, 5, "C13T|") == 0) { auto f = split(caseid, '|'); if (f.size() != 3) return 2; int rd = atoi(f[1].c_str()); ctx.seed = strtoull(f[2].c_str(), nullptr, 10); const Pool &P = pool(ctx); auto reps = length_reps(P, ctx.seed);
    hz::Rng r(ctx.seed * 77 + rd); std::vector<ChunkCase> ks; for (int i = 0; i < 48; i++) { ChunkCase k; static const int CS[] = {3, 5, 7, 8, 11, 13, 16, 17}; k.c = CS[r.below(8)]; k.start = (int)r.below(40); k.combo = (int)r.below(12); int nl = 2 + (int)r.below(10); for (int j = 0; j < nl; j++) k.lines.push_back(reps[r.below(reps.size())]); ks.push_back(k); }
    for (auto &k : ks) check13(k); std::vector<std::string> bad(4); std::vector<std::thread> th;
    for (int t = 0; t < 4; t++) th.emplace_back([&, t]() { for (int rep = 0; rep < 30 && bad[t].empty(); rep++) for (size_t i = 0; i < ks.size(); i++) { HV v = check13(ks[(i + t * 11) % ks.size()]); if (!v.ok) { bad[t] = v.symptom + " : " + v.detail; break; } } });
    for (auto &x : th) x.join(); for (auto &b : bad) if (!b.empty()) { printf("FAIL %s\n", b.c_str()); return 1; } printf("OK\n"); return 0; }
  if (caseid.compare(0, 5, "C14G|") == 0) { auto f = split(caseid, '|'); if (f.size() != 6) return 2; int q = atoi(f[1].c_str()), d = atoi(f[2].c_str()); size_t a = (size_t)atoi(f[3].c_str()); int c = atoi(f[4].c_str()); ctx.seed = strtoull(f[5].c_str(), nullptr, 10); const Pool &P = pool(ctx);
    std::vector<std::string> longs; for (auto it = P.bylen.rbegin(); it != P.bylen.rend() && longs.size() < 6; ++it) if (it->first >= 9) longs.push_back(P.lines[it->second[ctx.seed % it->second.size()]]);
    ChunkCase k; k.counting = true; k.internal = true; k.c = c; k.combo = DEFAULT_COMBO; k.start = 0; k.calls = 1 + (int)((d + a) % 2); k.lines.assign((size_t)(6000 * q - d + (int)(ctx.seed % 2)), "nop"); k.lines.push_back(longs[a % longs.size()]); k.lines.push_back(longs[(a + 1 + d) % longs.size()]); k.lines.push_back("nop"); k.lines.push_back(longs[(a + 2) % longs.size()]);
    HV v = check14(k); if (v.ok) { printf("OK\n"); return 0; } printf("FAIL %s : %s\n", v.symptom.c_str(), v.detail.c_str()); return 1; }
  if (caseid.compare(0, 5, "C14E|") == 0) { auto f = split(caseid, '|'); if (f.size() != 5) return 2; static const char *EMPTY[] = {"", "; only a comment\n", "lbl:\n", "\n\n", "section .text\n; x\n\tglobal f\n", "   ", "; no newline"};
    int n = atoi(f[1].c_str()), start = atoi(f[2].c_str()), e = atoi(f[3].c_str()), c = atoi(f[4].c_str()); std::vector<uint8_t> b1(n + 1, 0xcc), b2(n + 1, 0xcc); assemblyline_t a1 = asm_create_instance(b1.data(), n), a2 = asm_create_instance(b2.data(), n); asm_set_offset(a1, start); asm_set_offset(a2, start);
    std::string t = EMPTY[e % 7]; std::vector<char> w(t.begin(), t.end()); w.push_back(0); int cnt = -7; int r1 = asm_assemble_string_counting_chunks(a1, w.data(), c, &cnt), r2 = asm_assemble_str(a2, t.c_str()); int o1 = asm_get_offset(a1), o2 = asm_get_offset(a2); asm_destroy_instance(a1); asm_destroy_instance(a2);
    bool ok = r1 == r2 && o1 == o2 && (r1 != 0 || cnt == 0); printf("counting rc=%d off=%d cnt=%d ; plain rc=%d off=%d : %s\n", r1, o1, cnt, r2, o2, ok ? "OK" : "FAIL"); return ok ? 0 : 1; }
  if (caseid.compare(0, 4, "C13|") == 0 || caseid.compare(0, 4, "C14|") == 0) { ChunkCase k; if (!parseck(caseid, k)) return 2; HV v = k.counting ? check14(k) : check13(k); printf("%s[chunk %d, start %d]\n", join(k.lines).c_str(), k.c, k.start); if (v.ok) { printf("OK\n"); return 0; } printf("FAIL %s : %s\n", v.symptom.c_str(), v.detail.c_str()); return 1; }
  if (caseid.compare(0, 4, "C12|") == 0) { std::vector<SetCmd> h; int n = 1; if (!parse12(caseid, h, n)) return 2; HV v = check12(h, n); printf("%s\n", text12(h).c_str()); if (v.ok) { printf("OK\n"); return 0; } printf("FAIL %s : %s\n", v.symptom.c_str(), v.detail.c_str()); return 1; }
  if (caseid.compare(0, 4, "C15|") == 0) { C15Case c; if (!parse15(caseid, c)) return 2; ctx.seed = c.poolseed; const Pool &P = pool(ctx); HV v = check15(P, c); printf("%s\n", text15(P, c).c_str()); if (v.ok) { printf("OK\n"); return 0; } printf("FAIL %s : %s\n", v.symptom.c_str(), v.detail.c_str()); return 1; }
  (void)prop; return 2;
}
