// Program-level helpers shared by the history properties: a seeded pool of valid
// lines (drawn from the C01-C05 generators), cached "assembled alone" bytes, NOP
// recognition, and rapidcheck driving glue.
#pragma once
#include <chrono>
#include "gen.hpp"
#include <rapidcheck.h>
#include <sstream>

namespace prog {
using namespace gen;

struct Pool {
  std::vector<std::string> lines;          // each assembles alone under all 12 option combinations
  std::vector<std::string> safe;           // side-effect free lines on caller-saved registers only (executable programs)
  std::vector<std::string> bad;            // lines that must fail
  std::map<int, std::vector<size_t>> bylen; // emitted length (default options) -> line indices
};

static inline std::vector<uint8_t> solo(const std::string &line, int combo) {
  static std::map<std::pair<std::string, int>, std::vector<uint8_t>> cache;
  auto key = std::make_pair(line, combo);
  auto it = cache.find(key); if (it != cache.end()) return it->second;
  al::Result r = al::assemble(line, combo);
  std::vector<uint8_t> b = r.rc == 0 ? r.bytes : std::vector<uint8_t>();
  if (cache.size() < 400000) cache[key] = b;
  return b;
}

static inline Pool build_pool(uint64_t seed, size_t per_form) {
  Pool p; hz::Rng rng(seed ^ 0x9001);
  ShapeOpts so; so.all_regs = false; so.disp_level = 1; so.spellings = false;
  std::vector<WMem> sh = shape_list(so, seed + 21);
  auto refs = form_refs([](const Form &) { return true; });
  std::set<std::string> seen;
  for (auto &r : refs) for (size_t rep = 0; rep < per_form; rep++) {
    Intent it = base_intent(r); bool bad = false;
    for (auto &s : r.slots) {
      if (s == "REL") { static const int64_t D[] = {0, 1, 5, 0x7f, 0x80, 0x100, -1, -5, -0x80, -0x81, 0x12345, -0x12345}; int64_t d = D[rng.below(12)]; if (r.mn == "jrcxz") d %= 128; it.ops.push_back(wrel(d, rng.coin())); }
      else if (is_mem_slot(s)) it.ops.push_back(mem_for_slot(sh[rng.below(sh.size())], s, r.size, r.f->kw, rng.coin()));
      else if (is_imm_slot(s)) { char pol = imm_policy(s); int w = s == "I8" ? 8 : (s == "IPUSH" ? 64 : r.size); auto sps = imm_spellings(w, pol, rng, 2, false); if (sps.empty()) { bad = true; break; } auto &sp = sps[rng.below(sps.size())]; it.ops.push_back(wimm(sp.v, imm_space(s, r.size), sp.hex, sp.neg, sp.pad)); }
      else { auto c = reg_candidates(s, r.size); if (c.empty()) { bad = true; break; } it.ops.push_back(c[rng.below(c.size())]); }
    }
    if (bad || !encodable(it)) continue;
    std::string line = text(it);
    if (!seen.insert(line).second) continue;
    bool ok = true; for (int c = 0; c < 12 && ok; c++) if (solo(line, c).empty()) ok = false;
    if (!ok) continue;
    p.bylen[(int)solo(line, DEFAULT_COMBO).size()].push_back(p.lines.size());
    p.lines.push_back(line);
  }
  // executable-safe lines: only rax rcx rdx rsi rdi r8-r11, no memory, no stack, no branches, no privileged/TSX
  static const char *S[] = {"mov rax, rcx", "add rax, rdx", "xor rcx, rcx", "sub rdx, 5", "lea rsi, [rdi+rcx*2+8]", "mov r8, 0x1122334455667788", "imul r9, r10", "shl r11, 3", "mov ecx, 7", "and rdx, -16", "or rsi, 1", "not rdi", "neg r8", "inc r9", "dec r10", "cmovne rax, rcx", "setz dl", "movzx eax, cl", "test r11, r11", "cmp rax, 100", "nop", "nop5", "nop11", "xchg rcx, rdx", "adc rsi, rdi", "sbb r8, r9", "sar r10, 1", "shr r11d, 31", "mov r8d, r9d", "add cx, 5", "bt_placeholder"};
  for (auto s : S) { std::string l = s; if (l == "bt_placeholder") continue; bool ok = true; for (int c = 0; c < 12 && ok; c++) if (solo(l, c).empty()) ok = false; if (ok) p.safe.push_back(l); }
  p.bad = {"foo rax, rbx", "mov rax, [rbx", "add rax, zzz", "mov rax, r16", "add rax, 5, 6", "lea rax, [rbx+rcx*3]", "jmp", "vpaddq ymm1, ymm2", "mov , rax", "mov rax, [rsp+rsp]"};
  return p;
}

static inline bool all_nops(const uint8_t *p, size_t n) {
  size_t off = 0;
  while (off < n) { x86::Insn I = x86::decode(p + off, n - off); if (!I.ok || !I.isnop) return false; off += I.len; }
  return true;
}

static inline std::string join(const std::vector<std::string> &lines, const std::string &nl = "\n") { std::string s; for (auto &l : lines) s += l + nl; return s; }

// ---------- rapidcheck glue ----------
// Runs `prop` for about `cases` generated inputs in this worker, in rounds, so that a falsified
// round (whose shrunk counterexample is reported through `last_failure`) does not end the search.
struct RcState { bool have = false; hz::Failure last; };
static RcState &rcstate() { static RcState s; return s; }
static inline void rc_report(const hz::Failure &f) { rcstate().have = true; rcstate().last = f; }

template <typename Testable>
static inline void rc_rounds(hz::Ctx &ctx, const std::string &name, long long cases, int max_size, Testable &&prop, int round_size = 500) {
  long long mine = cases / std::max(1, ctx.nshards) + 1;
  int failures = 0; long long done = 0; int round = 0;
  while (done < mine && failures < 8) {
    rc::detail::TestParams params; params.seed = ctx.seed * 1000003ULL + (uint64_t)ctx.shard * 7919ULL + (uint64_t)round * 104729ULL + hz::fnv(name);
    params.maxSuccess = (int)std::min<long long>(round_size, mine - done); params.maxSize = max_size; params.maxDiscardRatio = 20;
    rc::detail::TestMetadata md; md.id = name; md.description = name;
    rcstate().have = false;
    // the search for a smaller counterexample is bounded (3000 evaluations or 45 s per falsified round): on a tree where a large part of the cases
    // fails, or where failing does not depend monotonically on the generated values, shrinking would otherwise take hours.  Past the bound every
    // candidate "passes", so rapidcheck settles on the smallest failing case found so far (which is what rcstate().last holds).
    long shrink_evals = 0; auto shrink_t0 = std::chrono::steady_clock::now(); bool shrink_started = false;
    auto bounded = [&]() {
      if (rcstate().have) { if (!shrink_started) { shrink_started = true; shrink_t0 = std::chrono::steady_clock::now(); }
        if (++shrink_evals > 3000 || std::chrono::steady_clock::now() - shrink_t0 > std::chrono::seconds(45)) return; }
      prop(); };
    auto result = rc::detail::checkTestable(bounded, md, params);
    rc::detail::FailureResult fr;
    if (result.match(fr)) {
      failures++;
      if (rcstate().have) { hz::Failure f = rcstate().last; std::ostringstream os; for (auto &e : fr.counterExample) os << e.second << " ; "; f.detail += "  | shrunk by rapidcheck (seed " + std::to_string(params.seed) + ")"; ctx.fail(f); }
      else { hz::Failure f; f.caseid = "rc|" + name; f.text = fr.description; f.symptom = "rapidcheck-failure"; f.detail = fr.description; f.tags = {"sym:rapidcheck-failure", "mn:" + name, "form:rc"}; ctx.fail(f); }
      done += fr.numSuccess + 1;
    } else { done += params.maxSuccess; }
    round++;
  }
}

// A seeded "previous life" of an instance that stays inside every property's domain and ends with chunk fitting
// switched off: redundant option calls, fitting switched on and off again, a failing call, a counting call, code
// assembled and the offset moved.  `mov/swap/nobase` (0..2) are the option state the instance must end in.
static inline void prelife(assemblyline_t a, uint64_t seed, int mov, int swap, int nobase, const std::vector<std::string> &valid) {
  hz::Rng r(seed * 0x9e3779b97f4a7c15ULL + 5);
  int n = (int)r.below(6);
  for (int i = 0; i < n; i++) {
    switch (r.below(7)) {
      case 0: asm_set_all(a, (enum asm_opt)r.below(3)); break;
      case 1: asm_sib(a, (enum asm_opt)r.below(2)); break;
      case 2: { static const size_t C[] = {2, 8, 16, 17, 64, 4096, ((size_t)1 << 32) + 16}; asm_set_chunk_size(a, C[r.below(7)]); asm_set_chunk_size(a, r.below(2)); break; }
      case 3: { asm_set_offset(a, 0); asm_assemble_str(a, "definitely not an instruction\n"); asm_set_offset(a, 0); break; }
      case 4: { asm_set_offset(a, 0); std::string l = valid[r.below(valid.size())] + "\n"; std::vector<char> w(l.begin(), l.end()); w.push_back(0); int c = 0; static const int C[] = {0, 2, 16, 4096}; asm_assemble_string_counting_chunks(a, w.data(), C[r.below(4)], &c); asm_set_offset(a, 0); break; }
      case 5: { asm_set_offset(a, 0); std::string l = valid[r.below(valid.size())] + "\n"; asm_assemble_str(a, l.c_str()); asm_set_offset(a, 0); break; }
      case 6: asm_mov_imm(a, (enum asm_opt)7); break;
    }
  }
  // no chunk call here: every toggle above ends with fitting switched off, which must be enough
  asm_mov_imm(a, (enum asm_opt)mov); asm_sib_index_base_swap(a, (enum asm_opt)swap); asm_sib_no_base(a, (enum asm_opt)nobase);
  asm_set_offset(a, 0);
}

template <typename T> static inline rc::Gen<T> fixed(rc::Gen<T> g) { return rc::gen::resize(100, std::move(g)); }
static inline rc::Gen<int> range(int lo, int hi) { return rc::gen::resize(100, rc::gen::inRange(lo, hi)); }

} // namespace prog
