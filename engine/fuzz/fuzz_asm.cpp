// C09 libFuzzer target: arbitrary text through every assemble entry point under every option/chunk/mode
// setting.  The first three bytes are decoded structurally, the rest is the NUL-terminated text.
//   byte0: bits 0..3 option combination (mod 12) | bit 4..5: entry point (0 str, 1 counting, 2 file, 3 file counting)
//          | bit 6: debug listing on (asm_set_debug) | bit 7: the text is assembled a second time behind the first call
//   byte1: bit0 internal/external buffer, bits 1..3 external buffer size class, bit 4 chunk fitting on, bits 5..7 start offset class
//   byte2: chunk size index
// Oracle inside the target: the call returns EXIT_SUCCESS or EXIT_FAILURE, the offset stays inside the buffer,
// bytes before the start offset and the exact-size heap buffer's redzones (ASan) are untouched; ASan/UBSan silent.
extern "C" {
#include "assemblyline.h"
}
#include <cerrno>
#include <cstdint>
#include <cstdio>
#include <cstdlib>
#include <cstring>
#include <string>
#include <sys/mman.h>
#include <unistd.h>
#include <vector>

static const long long CHUNKS[] = {0, 1, 2, 3, 4, 5, 7, 8, 13, 16, 17, 32, 64, 4096, (1LL << 32), (1LL << 32) + 16};
static const int SIZES[] = {0, 1, 19, 20, 21, 64, 300, 5000};

static void die(const char *what, const uint8_t *data, size_t size) {
  fprintf(stderr, "C09 ORACLE VIOLATION: %s (input of %zu bytes)\n", what, size);
  (void)data;
  __builtin_trap();
}

extern "C" int LLVMFuzzerTestOneInput(const uint8_t *data, size_t size) {
  if (size < 3) return 0;
  int combo = (data[0] & 15) % 12, entry = (data[0] >> 4) & 3; bool debug = data[0] & 64, twice = data[0] & 128;
  static bool quiet = (freopen("/dev/null", "w", stdout), true); (void)quiet;   // the debug listing goes to stdout
  bool internal = data[1] & 1; int n = SIZES[(data[1] >> 1) & 7]; bool fitting = data[1] & 16; int startcls = (data[1] >> 5) & 7;
  long long chunk = CHUNKS[data[2] & 15];
  std::string text((const char *)data + 3, size - 3);
  size_t z = text.find('\0'); if (z != std::string::npos) text.resize(z);

  std::vector<uint8_t> ext;
  uint8_t *buf = nullptr;
  if (!internal) { ext.assign(n, 0x5a); ext.shrink_to_fit(); buf = ext.data(); if (!buf) { static uint8_t dummy; buf = &dummy; } }
  assemblyline_t a = asm_create_instance(internal ? nullptr : buf, n);
  if (!a) return 0;
  asm_mov_imm(a, (enum asm_opt)(combo % 3)); asm_sib_index_base_swap(a, (enum asm_opt)((combo / 3) % 2)); asm_sib_no_base(a, (enum asm_opt)((combo / 6) % 2));
  if (fitting) asm_set_chunk_size(a, (size_t)chunk);
  if (debug) asm_set_debug(a, true);
  int limit = internal ? 6000 : n;
  int start = startcls == 0 ? 0 : startcls == 1 ? limit : startcls == 2 ? limit / 2 : startcls == 3 ? (limit > 20 ? limit - 20 : 0) : startcls == 4 ? (limit > 21 ? limit - 21 : 0) : startcls == 5 ? 1 : startcls == 6 ? (limit > 19 ? limit - 19 : 0) : 7 % (limit + 1);
  if (start > limit) start = limit; /* offsets are documented for 0..n only */
  asm_set_offset(a, start);
  int rc, cnt = 0;
  { static const int E[] = {0, EINTR, ERANGE, ENOMEM, EAGAIN, EINVAL, EBADF, EIO}; errno = E[(data[2] >> 4) & 7]; }   // errno is the caller's and arbitrary on entry
  std::vector<char> w(text.begin(), text.end()); w.push_back(0);
  // asm_assemble_str takes a const char *: for every other input length the text lies in memory the library can read but not
  // write (as a string literal or a read-only mapping would), and its NUL is the last byte in front of an inaccessible page
  const char *ctext = text.c_str();
  { static char *arena = nullptr; static const size_t SPAN = 1 << 20;
    if (!arena) { void *m = mmap(nullptr, SPAN + 4096, PROT_NONE, MAP_PRIVATE | MAP_ANONYMOUS, -1, 0); if (m != MAP_FAILED) arena = (char *)m; }
    if (arena && (size & 1) == 0 && text.size() + 1 <= SPAN) { size_t pg = 4096, len = text.size() + 1, span = (len + pg - 1) / pg * pg; char *lo = arena + SPAN - span;
      mprotect(lo, span, PROT_READ | PROT_WRITE); memcpy(arena + SPAN - len, text.c_str(), len); mprotect(lo, span, PROT_READ); ctext = arena + SPAN - len; } }
  if (entry == 0) rc = asm_assemble_str(a, ctext);
  else if (entry == 1) rc = asm_assemble_string_counting_chunks(a, w.data(), (int)chunk, &cnt);
  else {
    int fd = memfd_create("c09", 0); if (fd < 0) { asm_destroy_instance(a); return 0; }
    if (!text.empty() && write(fd, text.data(), text.size()) != (ssize_t)text.size()) { close(fd); asm_destroy_instance(a); return 0; }
    char path[64]; snprintf(path, sizeof path, "/proc/self/fd/%d", fd);
    rc = entry == 2 ? asm_assemble_file(a, path) : asm_assemble_file_counting_chunks(a, path, (int)chunk, &cnt);
    close(fd);
  }
  if (rc != EXIT_SUCCESS && rc != EXIT_FAILURE) die("return value is neither EXIT_SUCCESS nor EXIT_FAILURE", data, size);
  if (twice) { // a further call on the same instance, from wherever the first one left the offset
    int rc2 = (entry & 1) ? asm_assemble_string_counting_chunks(a, w.data(), (int)chunk, &cnt) : asm_assemble_str(a, ctext);
    if (rc2 != EXIT_SUCCESS && rc2 != EXIT_FAILURE) die("return value of the second call is neither EXIT_SUCCESS nor EXIT_FAILURE", data, size);
    if (rc2 != EXIT_SUCCESS) rc = rc2;
  }
  int off = asm_get_offset(a);
  if (rc == EXIT_SUCCESS) {
    if (off < start) die("offset moved backwards on success", data, size);
    if (!internal && off > n) die("offset beyond the caller buffer", data, size);
    if (cnt < 0) die("negative chunk count", data, size);
  }
  if (!internal) for (int i = 0; i < start && i < n; i++) if (buf[i] != 0x5a) die("byte before the start offset modified", data, size);
  // the instance must remain usable and destroyable
  asm_set_offset(a, 0);
  if (asm_destroy_instance(a) != EXIT_SUCCESS) die("asm_destroy_instance failed", data, size);
  return 0;
}
