/* Pure-C replayer of fuzz inputs (same decoding as fuzz_asm.cpp) used for the MemorySanitizer pass of C09:
 * no libstdc++ is involved, so MSan reports concern the library only.  usage: replay_c file... */
#define _GNU_SOURCE
#include "assemblyline.h"
#include <errno.h>
#include <stdio.h>
#include <stdlib.h>
#include <string.h>
#include <sys/mman.h>
#include <unistd.h>
static const long long CHUNKS[] = {0, 1, 2, 3, 4, 5, 7, 8, 13, 16, 17, 32, 64, 4096, (1LL << 32), (1LL << 32) + 16};
static const int SIZES[] = {0, 1, 19, 20, 21, 64, 300, 5000};
static int one(const unsigned char *data, size_t size) {
  if (size < 3) return 0;
  int combo = (data[0] & 15) % 12, entry = (data[0] >> 4) & 3; int debug = data[0] & 64, twice = data[0] & 128;
  int internal = data[1] & 1; int n = SIZES[(data[1] >> 1) & 7]; int fitting = data[1] & 16; int startcls = (data[1] >> 5) & 7;
  long long chunk = CHUNKS[data[2] & 15];
  char *text = malloc(size - 3 + 1); memcpy(text, data + 3, size - 3); text[size - 3] = 0;
  unsigned char *buf = internal ? NULL : malloc(n ? n : 1); if (buf) memset(buf, 0x5a, n ? n : 1);
  assemblyline_t a = asm_create_instance(buf, n); if (!a) return 0;
  asm_mov_imm(a, combo % 3); asm_sib_index_base_swap(a, (combo / 3) % 2); asm_sib_no_base(a, (combo / 6) % 2);
  if (fitting) asm_set_chunk_size(a, (size_t)chunk);
  if (debug) asm_set_debug(a, 1);
  int limit = internal ? 6000 : n;
  int start = startcls == 0 ? 0 : startcls == 1 ? limit : startcls == 2 ? limit / 2 : startcls == 3 ? (limit > 20 ? limit - 20 : 0) : startcls == 4 ? (limit > 21 ? limit - 21 : 0) : startcls == 5 ? 1 : startcls == 6 ? (limit > 19 ? limit - 19 : 0) : 7 % (limit + 1);
  if (start > limit) start = limit; /* offsets are documented for 0..n only */
  asm_set_offset(a, start);
  int rc, cnt = 0;
  { static const int E[] = {0, EINTR, ERANGE, ENOMEM, EAGAIN, EINVAL, EBADF, EIO}; errno = E[(data[2] >> 4) & 7]; }
  if (entry == 0 || entry == 2) rc = asm_assemble_str(a, text); else rc = asm_assemble_string_counting_chunks(a, text, (int)chunk, &cnt);
  if (twice) { int rc2 = (entry & 1) ? asm_assemble_string_counting_chunks(a, text, (int)chunk, &cnt) : asm_assemble_str(a, text); if (rc2) rc = rc2; }
  int off = asm_get_offset(a);
  /* make MSan look at every byte the library claims to have produced */
  unsigned long sum = 0; if (rc == 0 && off > start) { const unsigned char *c = asm_get_code(a); for (int i = start; i < off; i++) sum += c[i]; }
  if (sum == 0xffffffffffUL) puts("");
  asm_destroy_instance(a); free(text); free(buf);
  return rc;
}
int main(int argc, char **argv) {
  if (!freopen("/dev/null", "w", stdout)) return 2;   /* the debug listing goes to stdout */
  for (int i = 1; i < argc; i++) { FILE *f = fopen(argv[i], "rb"); if (!f) continue; static unsigned char b[1 << 20]; size_t n = fread(b, 1, sizeof b, f); fclose(f); one(b, n); }
  return 0;
}
