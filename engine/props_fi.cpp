// C19: file entry points equal their in-memory counterparts (file contents placed in front of a guard page).
// C17: OS resource failures are reported, never crash or corrupt (systematic single-fault enumeration).
// Both need the fault-injectable build (alverif_fi): the library's libc calls go through engine/fault/wrap.c.
#include "fault/wrap.h"
#include "prog.hpp"
#include "props.hpp"
#include <dirent.h>
#include <fcntl.h>
#include <sys/stat.h>

using namespace prog;

extern "C" void alw_reset(void) __attribute__((weak));
extern "C" const char *alw_kind_name(int) __attribute__((weak));
static bool have_fi() { return &alw != nullptr; }

static const Pool &pool(hz::Ctx &ctx) { static Pool p = build_pool(ctx.seed, 2); return p; }
static std::string tmpdir() { static std::string d; if (d.empty()) { const char *root = getenv("VERIF_ROOT"); std::string rb = std::string(root ? root : "/verif") + "/build"; d = rb + "/tmp"; mkdir(rb.c_str(), 0755); mkdir(d.c_str(), 0755); d += "/w" + std::to_string(getpid()); mkdir(d.c_str(), 0755); } return d; }
static bool write_file(const std::string &p, const std::string &data) { FILE *f = fopen(p.c_str(), "wb"); if (!f) return false; bool ok = data.empty() || fwrite(data.data(), 1, data.size(), f) == data.size(); fclose(f); return ok; }
static bool read_all(const std::string &p, std::string &out) { return hz::read_file(p, out); }
static std::string tohex(const std::string &s) { std::string o; char b[4]; for (unsigned char c : s) { snprintf(b, sizeof b, "%02x", c); o += b; } return o; }
static std::string fromhex(const std::string &h) { std::string o; for (size_t i = 0; i + 1 < h.size(); i += 2) o += (char)strtol(h.substr(i, 2).c_str(), nullptr, 16); return o; }

// ===================================================================== C19
struct C19Case { std::string content; int combo = DEFAULT_COMBO; int mode = 0 /*0 plain 1 counting*/; int chunk = 16; int start = 0; int special = 0 /*0 regular file 1 nonexistent 2 directory 3 bin file at offsets*/; int fit = 0 /*chunk fitting set on both instances beforehand*/; int nbuf = 1 << 16; uint64_t pre = 0; bool nulldest = false; /* counting calls with a NULL result pointer */ bool closed0 = false; /* descriptor 0 is closed while the file entry point runs (the file then gets descriptor 0) */ };
static std::string ser19(const C19Case &c) { return "C19|" + std::to_string(c.combo) + "|" + std::to_string(c.mode) + "|" + std::to_string(c.chunk) + "|" + std::to_string(c.start) + "|" + std::to_string(c.special) + ":" + std::to_string(c.fit) + ":" + std::to_string(c.nbuf) + ":" + std::to_string(c.pre) + ":" + std::to_string((c.nulldest ? 1 : 0) + (c.closed0 ? 2 : 0)) + "|" + tohex(c.content); }
static bool parse19(const std::string &s, C19Case &c) { auto f = split(s, '|'); if (f.size() < 6 || f[0] != "C19") return false; c.combo = atoi(f[1].c_str()); c.mode = atoi(f[2].c_str()); c.chunk = atoi(f[3].c_str()); c.start = atoi(f[4].c_str()); { auto g = split(f[5], ':'); c.special = atoi(g[0].c_str()); c.fit = g.size() > 1 ? atoi(g[1].c_str()) : 0; c.nbuf = g.size() > 2 ? atoi(g[2].c_str()) : 1 << 16; c.pre = g.size() > 3 ? strtoull(g[3].c_str(), nullptr, 10) : 0; { int fl = g.size() > 4 ? atoi(g[4].c_str()) : 0; c.nulldest = fl & 1; c.closed0 = fl & 2; } } c.content = f.size() > 6 ? fromhex(f[6]) : ""; return true; }
struct FV { bool ok = true; std::string symptom, detail; };

#include <sys/resource.h>
#include <sys/wait.h>
#include <csignal>
static const char *ODD[] = {"/sys/devices/system/cpu/online", "/proc/self/cmdline", "/dev/null", "/proc/self/status", "/sys/kernel/mm/transparent_hugepage/enabled", "/proc/self/maps"};
// special 4: files whose size (fstat) and content (read) disagree, devices: the call comes back with EXIT_SUCCESS or EXIT_FAILURE.
// special 5: many failing attempts (directory, missing file, odd files) in a process that can open only a few more files; a good file afterwards still
//            assembles like its contents (a descriptor lost per failing attempt would make it fail)
static FV check19_special(const C19Case &c) {
  FV v; auto bad = [&](const std::string &s, const std::string &d) { v.ok = false; v.symptom = s; v.detail = d; return v; };
  std::vector<uint8_t> b(4096, 0xcc);
  if (c.special == 4) {
    const char *path = ODD[c.start % 6]; if (access(path, R_OK) != 0) return v;
    assemblyline_t a = asm_create_instance(b.data(), 4096); std::vector<char> p(path, path + strlen(path) + 1); int cnt = 0;
    int rc = c.mode == 1 ? asm_assemble_file_counting_chunks(a, p.data(), c.chunk, &cnt) : (c.chunk & 1) ? assemble_file(a, p.data()) : asm_assemble_file(a, p.data());
    bool usable = (asm_set_offset(a, 0), asm_assemble_str(a, "nop\n") == 0); asm_destroy_instance(a);
    if (rc != 0 && rc != 1) return bad("return-value", std::string(path) + ": returned " + std::to_string(rc));
    if (!usable) return bad("unusable", std::string("instance unusable after ") + path);
    return v;
  }
  if (c.special == 6) { // a readable file that belongs to somebody else, read by a process without privileges (a forked child that gives up root)
    if (geteuid() != 0) return v;
    // c.start 0: all privileges dropped, world-readable file of root.  1: real user nobody, effective user root (what a set-uid program is), file
    // readable by root only - the open succeeds, so the call is the string call.  2: effective user nobody, real user root, same file - the open is
    // refused, so the call reports EXIT_FAILURE
    int credv = c.start % 4;   // 3: as 2, with an empty file (nothing to read is no reason not to open it)
    char tmpl[] = "/tmp/c19nr.XXXXXX"; char *dir = mkdtemp(tmpl); if (!dir) return v; chmod(dir, 0755); std::string fp = std::string(dir) + "/prog.asm", prog = credv == 3 ? "" : "mov rax, 0x1122334455667788\nadd rcx, 5\nret\n"; write_file(fp, prog); chmod(fp.c_str(), credv == 0 ? 0644 : 0600);
    fflush(nullptr); pid_t pid = fork();
    if (pid == 0 && credv >= 2) { if (seteuid(65534) != 0) _exit(77); std::vector<uint8_t> b1(4096, 0xcc); assemblyline_t a1 = asm_create_instance(b1.data(), 4096); std::vector<char> p(fp.begin(), fp.end()); p.push_back(0); int c1 = 0; if (open(p.data(), O_RDONLY) >= 0) _exit(77);
      int r1 = c.mode == 1 ? asm_assemble_file_counting_chunks(a1, p.data(), 16, &c1) : asm_assemble_file(a1, p.data()); _exit(r1 == EXIT_FAILURE && asm_get_offset(a1) == 0 ? 0 : 1); }
    if (pid == 0) { if (credv == 1 ? setresuid(65534, 0, 0) != 0 : (setgid(65534) != 0 || setuid(65534) != 0)) _exit(77); std::vector<uint8_t> b1(4096, 0xcc), b2(4096, 0xcc); assemblyline_t a1 = asm_create_instance(b1.data(), 4096), a2 = asm_create_instance(b2.data(), 4096); std::vector<char> p(fp.begin(), fp.end()); p.push_back(0); int c1 = 0, c2 = 0; std::vector<char> w(prog.begin(), prog.end()); w.push_back(0);
      int r1 = c.mode == 1 ? asm_assemble_file_counting_chunks(a1, p.data(), 16, &c1) : asm_assemble_file(a1, p.data()), r2 = c.mode == 1 ? asm_assemble_string_counting_chunks(a2, w.data(), 16, &c2) : asm_assemble_str(a2, prog.c_str());
      _exit(r1 == r2 && c1 == c2 && asm_get_offset(a1) == asm_get_offset(a2) && b1 == b2 ? 0 : 1); }
    int st = 0; waitpid(pid, &st, 0); unlink(fp.c_str()); rmdir(dir);
    if (WIFEXITED(st) && WEXITSTATUS(st) == 77) return v;   // privileges cannot be dropped here
    if (!WIFEXITED(st) || WEXITSTATUS(st) != 0) return bad("other-owner", std::string(credv == 0 ? "a process without privileges reading a world-readable file of another owner" : credv == 1 ? "real user nobody, effective user root, file readable by root only (open succeeds)" : credv == 2 ? "effective user nobody, file readable by root only (open is refused): the call must return EXIT_FAILURE and leave the offset" : "effective user nobody, EMPTY file readable by root only (open is refused): the call must return EXIT_FAILURE") + (credv >= 2 ? "" : ": the file call differs from the string call on the same contents") + " (child status " + std::to_string(st) + ")");
    return v;
  }
  if (c.special == 7) { // asm_create_bin_file onto a target that takes the bytes only in part or not at all (a full device, a file size limit): success only with all bytes in the file
    size_t want = c.start % 2 ? 20000 : 100; std::vector<uint8_t> big(want + 64, 0xcc); assemblyline_t a = asm_create_instance(big.data(), (int)big.size());
    std::string prog; while (prog.size() / 4 * 1 < want) prog += "nop\n"; prog.resize(want * 4); if (asm_assemble_str(a, prog.c_str()) != 0 || (size_t)asm_get_offset(a) != want) { asm_destroy_instance(a); return bad("harness", "cannot assemble the nop program"); }
    std::string why;
    if (c.start >= 4) { // a process without privileges replaces an existing file of its own that it may write but not read (mode 0200)
      if (geteuid() == 0) { char tmpl[] = "/tmp/c19wo.XXXXXX"; char *dir = mkdtemp(tmpl); if (dir) { chmod(dir, 0777); std::string fp = std::string(dir) + "/out.bin"; fflush(nullptr); pid_t pid = fork();
        if (pid == 0) { if (setgid(65534) != 0 || setuid(65534) != 0) _exit(77); int fd = open(fp.c_str(), O_WRONLY | O_CREAT | O_TRUNC, 0200); if (fd < 0) _exit(77); if (write(fd, "old contents, longer than nothing", 33) != 33) _exit(77); close(fd); chmod(fp.c_str(), 0200);
          std::vector<char> p(fp.begin(), fp.end()); p.push_back(0); int rc = asm_create_bin_file(a, p.data()); _exit(rc == EXIT_SUCCESS ? 0 : 1); }
        int st = 0; waitpid(pid, &st, 0); std::string got; bool have = read_all(fp, got); unlink(fp.c_str()); rmdir(dir);
        if (WIFEXITED(st) && WEXITSTATUS(st) == 77) { }
        else if (!WIFEXITED(st) || WEXITSTATUS(st) != 0) why = "asm_create_bin_file onto an existing file the (unprivileged) caller may write but not read (mode 0200) failed (child status " + std::to_string(st) + ")";
        else if (!have || got.size() != want || memcmp(got.data(), big.data(), want)) why = "asm_create_bin_file onto an existing write-only file returned EXIT_SUCCESS but the file holds " + std::to_string(got.size()) + " bytes that are not the code"; } }
    }
    else if (c.start / 2 % 2 == 0) { if (access("/dev/full", W_OK) == 0) { char path[] = "/dev/full"; int rc = asm_create_bin_file(a, path); if (rc != EXIT_FAILURE) why = "asm_create_bin_file(\"/dev/full\") with " + std::to_string(want) + " bytes of code returned " + std::to_string(rc) + " although the device takes no byte"; } }
    else {
      std::string fp = tmpdir() + "/limited.bin"; unlink(fp.c_str()); fflush(nullptr); pid_t pid = fork();
      if (pid == 0) { signal(SIGXFSZ, SIG_IGN); struct rlimit lim; lim.rlim_cur = lim.rlim_max = (rlim_t)(want / 2 - want / 2 % 16); if (setrlimit(RLIMIT_FSIZE, &lim) != 0) _exit(77); std::vector<char> p(fp.begin(), fp.end()); p.push_back(0); int rc = asm_create_bin_file(a, p.data()); _exit(rc == EXIT_SUCCESS ? 0 : rc == EXIT_FAILURE ? 1 : 2); }
      int st = 0; waitpid(pid, &st, 0); struct stat sb; long have = stat(fp.c_str(), &sb) == 0 ? (long)sb.st_size : -1; unlink(fp.c_str());
      if (!WIFEXITED(st)) why = "asm_create_bin_file under a file size limit: the process ended abnormally (status " + std::to_string(st) + ")";
      else if (WEXITSTATUS(st) == 2) why = "asm_create_bin_file under a file size limit returned neither EXIT_SUCCESS nor EXIT_FAILURE";
      else if (WEXITSTATUS(st) == 0 && have != (long)want) why = "asm_create_bin_file returned EXIT_SUCCESS under a file size limit of " + std::to_string(want / 2 - want / 2 % 16) + " bytes, but the file holds " + std::to_string(have) + " of " + std::to_string(want) + " bytes";
    }
    asm_destroy_instance(a); if (!why.empty()) return bad("bin-file-truncated", why); return v;
  }
  struct rlimit old; getrlimit(RLIMIT_NOFILE, &old); int top = open("/dev/null", O_RDONLY); if (top >= 0) close(top); struct rlimit lim = old; lim.rlim_cur = (rlim_t)(top + 24); if (lim.rlim_cur < old.rlim_cur) setrlimit(RLIMIT_NOFILE, &lim);
  std::string dir = tmpdir(), missing = tmpdir() + "/does-not-exist.asm", good = tmpdir() + "/good.asm"; std::string prog = "mov rax, 0x1122334455667788\nadd rcx, 5\nret\n"; write_file(good, prog);
  assemblyline_t a = asm_create_instance(b.data(), 4096); std::string why; int cnt = 0;
  for (int i = 0; i < 120 && why.empty(); i++) {
    const std::string &ps = i % 3 == 0 ? dir : i % 3 == 1 ? missing : std::string(ODD[i % 6]); std::vector<char> p(ps.begin(), ps.end()); p.push_back(0); asm_set_offset(a, 0);
    int rc = (c.mode == 1 || (i & 8)) ? asm_assemble_file_counting_chunks(a, p.data(), 16, &cnt) : asm_assemble_file(a, p.data());
    if (i % 3 != 2 && rc != EXIT_FAILURE) why = "attempt " + std::to_string(i) + " on " + ps + " returned " + std::to_string(rc);
  }
  if (why.empty()) { std::vector<char> p(good.begin(), good.end()); p.push_back(0); asm_set_offset(a, 0); int rc = asm_assemble_file(a, p.data()); int off = asm_get_offset(a);
    std::vector<uint8_t> rb(4096, 0xcc); assemblyline_t r = asm_create_instance(rb.data(), 4096); int rr = asm_assemble_str(r, prog.c_str()); int ro = asm_get_offset(r); asm_destroy_instance(r);
    if (rc != rr || off != ro || memcmp(b.data(), rb.data(), ro)) why = "after 120 failing attempts a readable file returned " + std::to_string(rc) + " (offset " + std::to_string(off) + "); its contents assemble with " + std::to_string(rr) + " (offset " + std::to_string(ro) + ")"; }
  asm_destroy_instance(a); setrlimit(RLIMIT_NOFILE, &old);
  if (!why.empty()) return bad("failing-attempts-exhaust", why);
  return v;
}

static FV check19(const C19Case &c) {
  if (c.special >= 4) return check19_special(c);
  FV v; auto bad = [&](const std::string &s, const std::string &d) { v.ok = false; v.symptom = s; v.detail = d; return v; };
  const int N = c.nbuf; std::vector<uint8_t> bs(N + 1, 0xcc), bf(N + 1, 0xcc);
  static const std::vector<std::string> PRE = {"mov rax, rbx", "add rcx, 5", "vpaddd ymm1, ymm2, ymm3"};
  auto prepare = [&](assemblyline_t x) { spec::Opts o = combo_opts(c.combo); if (c.pre && N >= 64) prelife(x, c.pre, o.mov, o.swap, o.nobase, PRE); else al::apply_opts(x, o, (unsigned)c.start); if (c.fit) asm_set_chunk_size(x, c.fit); asm_set_offset(x, std::min(c.start, N)); };
  std::string path = tmpdir() + "/in.asm";
  if (c.special == 1) path = tmpdir() + "/does-not-exist.asm"; else if (c.special == 2) path = tmpdir(); else if (!write_file(path, c.content)) return bad("harness", "cannot write " + path);
  if (have_fi()) alw.guard_files = 1;
  al::heap_fill((unsigned)(c.content.size() + c.start)); assemblyline_t f = asm_create_instance(bf.data(), N); prepare(f);
  int cf = -7, rf;
  std::vector<char> pth(path.begin(), path.end()); pth.push_back(0);
  int saved0 = -1; if (c.closed0) { saved0 = fcntl(0, F_DUPFD_CLOEXEC, 30); close(0); }
  struct Restore0 { int fd; ~Restore0() { if (fd >= 0) { dup2(fd, 0); close(fd); } } } restore0{saved0};
  if (c.mode == 1) rf = asm_assemble_file_counting_chunks(f, pth.data(), c.chunk, c.nulldest ? nullptr : &cf); else rf = (c.content.size() & 1) ? assemble_file(f, pth.data()) : asm_assemble_file(f, pth.data());
  int of = asm_get_offset(f);
  if (saved0 >= 0) { dup2(saved0, 0); close(saved0); restore0.fd = -1; }
  if (have_fi()) alw.guard_files = 0;
  if (c.special == 1 || c.special == 2) { asm_destroy_instance(f); if (rf != EXIT_FAILURE) return bad("missing-file-accepted", std::string(c.special == 1 ? "nonexistent path" : "directory") + " returned " + std::to_string(rf)); return v; }
  al::heap_fill((unsigned)(c.content.size() + c.start + 3)); assemblyline_t s = asm_create_instance(bs.data(), N); prepare(s);
  int cs = -7, rs; std::vector<char> w(c.content.begin(), c.content.end()); w.push_back(0);
  if (c.mode == 1) rs = asm_assemble_string_counting_chunks(s, w.data(), c.chunk, c.nulldest ? nullptr : &cs); else rs = asm_assemble_str(s, w.data());
  int os_ = asm_get_offset(s);
  FV res;
  if (rf != rs) res = bad("return-code", "file call returned " + std::to_string(rf) + ", string call on the same " + std::to_string(c.content.size()) + " bytes " + std::to_string(rs));
  else if (of != os_) res = bad("offset", "offset " + std::to_string(of) + " vs " + std::to_string(os_));
  else if (c.mode == 1 && cf != cs) res = bad("count", "count " + std::to_string(cf) + " vs " + std::to_string(cs));
  else if (bf != bs) res = bad("bytes", "buffers differ");
  // asm_create_bin_file: exactly the bytes [0, offset)
  if (res.ok && rf == 0 && c.special == 3) {
    std::string bin = tmpdir() + "/out.bin"; unlink(bin.c_str());
    int rb = asm_create_bin_file(f, bin.c_str()); std::string got;
    if (of < 0 || of > N) res = bad("offset", "offset outside the buffer");
    else if (rb != 0) res = bad("bin-file", "asm_create_bin_file returned " + std::to_string(rb));
    else if (!read_all(bin, got) && of != 0) res = bad("bin-file", "output file missing");
    else if ((int)got.size() != of || memcmp(got.data(), bf.data(), of)) res = bad("bin-file", "file holds " + std::to_string(got.size()) + " bytes, offset is " + std::to_string(of) + (got.size() == (size_t)of ? " (content differs)" : ""));
    if (res.ok) { int k = of / 2; asm_set_offset(f, k); /* same path, now longer than the code: must be replaced, not patched */ rb = asm_create_bin_file(f, bin.c_str()); got.clear(); read_all(bin, got); if (rb != 0 || (int)got.size() != k || memcmp(got.data(), bf.data(), k)) res = bad("bin-file", "after asm_set_offset(" + std::to_string(k) + ") the file holds " + std::to_string(got.size()) + " bytes"); }
  }
  asm_destroy_instance(f); asm_destroy_instance(s);
  return res;
}
// contents too long for a command line are stored next to the replays and referenced by path
static std::string ser19_any(const C19Case &c) {
  if (c.content.size() <= 20000) return ser19(c);
  const char *root = getenv("VERIF_ROOT"); std::string rd = std::string(root ? root : "/verif") + "/replays"; mkdir(rd.c_str(), 0755); rd += "/bulk"; mkdir(rd.c_str(), 0755);
  std::string keep = rd + "/c19-" + std::to_string(c.content.size()) + "-" + std::to_string(hz::fnv(c.content) % 100000) + ".asm"; write_file(keep, c.content);
  C19Case e = c; e.content.clear(); std::string head = ser19(e); head = head.substr(4, head.size() - 5);   // the fields between "C19|" and the trailing "|"
  return "C19F|" + head + "|" + keep;
}
static hz::Failure fail19(const C19Case &c, const FV &v) { hz::Failure f; f.caseid = ser19_any(c); f.text = "file of " + std::to_string(c.content.size()) + " bytes: " + hz::jesc(c.content.substr(0, 80)) + (c.content.size() > 80 ? "..." : ""); f.symptom = v.symptom; f.detail = v.detail; f.tags = {"mn:file", "form:size" + std::to_string(c.content.size() % 4096 == 0 ? 0 : 1), "sym:" + v.symptom}; if (c.content.empty()) f.tags.push_back("file:empty"); return f; }

// program text padded with comment bytes to exactly `size` bytes
static std::string sized_content(const Pool &P, hz::Rng &r, size_t size, bool failing, bool final_nl, bool crlf) {
  std::string nl = crlf ? "\r\n" : "\n", s;
  if (size == 0) return s;
  while (true) { std::string l = failing && r.below(4) == 0 ? P.bad[r.below(P.bad.size())] : P.lines[r.below(P.lines.size())]; if (s.size() + l.size() + nl.size() + 2 > size) break; s += l + nl; }
  // pad with a comment (no NUL bytes)
  size_t room = size - s.size();
  if (room == 0) return s;
  std::string tail = ";"; size_t tl = final_nl ? nl.size() : 0;
  if (room <= tl) { tail = std::string(room, ' '); if (s.empty()) return tail; return s + tail; }
  while (tail.size() < room - tl) tail += (char)('a' + r.below(26));
  if (final_nl) tail += nl;
  return s + tail;
}

void prop_c19(hz::Ctx &ctx) {
  if (!have_fi()) { hz::Failure f; f.caseid = "C19|nofi"; f.text = "engine built without fault layer"; f.symptom = "harness"; f.tags = {"sym:harness"}; ctx.fail(f); return; }
  const Pool &P = pool(ctx); hz::Rng r(ctx.seed ^ 0xc19);
  std::vector<size_t> sizes; for (size_t s = 0; s <= 64; s++) sizes.push_back(s);
  for (int q = 1; q <= 4; q++) for (int d = -4; d <= 4; d++) sizes.push_back(4096 * q + d);
  for (size_t s : {100u, 1000u, 5000u, 9999u, 20000u}) sizes.push_back(s);
  // round numbers a reader might chunk by (and their neighbours)
  for (size_t m : {512u, 1000u, 1024u, 6000u, 6020u, 10000u, 32768u, 60000u, 65536u, 100000u, 120000u, 131072u, 180000u, 262144u, 600000u}) for (int d = -1; d <= 1; d++) if (ctx.thorough() || d == 0 || m % 6000 == 0) sizes.push_back(m + d);
  // files of a megabyte and more (few code lines, comment padding, code again at the very end), at and around page multiples
  {
    std::vector<size_t> big = {(1u << 20) - 1, 1u << 20, (1u << 20) + 1, (1u << 20) + 4096, 2u << 20, (2u << 20) + 4095, 3u << 19, 1000000u}; if (ctx.thorough()) { big.push_back(4u << 20); big.push_back((4u << 20) + 8192); big.push_back((1u << 20) + 8192); big.push_back(8u << 20); }
    for (size_t size : big) for (int rep = 0; rep < (ctx.thorough() ? 6 : 2); rep++) for (int mode = 0; mode < 2; mode++) {
      bool final_nl = (rep + mode) & 1, crlf = rep & 2; std::string nl = crlf ? "\r\n" : "\n";
      C19Case c; std::string headt, tailt; for (int i = 0; i < 20; i++) headt += P.lines[r.below(P.lines.size())] + nl; for (int i = 0; i < 3; i++) tailt += P.lines[r.below(P.lines.size())] + (i < 2 || final_nl ? nl : "");
      std::string mid; mid.reserve(size); while (headt.size() + mid.size() + tailt.size() + 82 < size) { mid += ";"; for (int q = 0; q < 78; q++) mid += (char)('a' + (q * 7 + mid.size()) % 26); mid += nl; } while (headt.size() + mid.size() + tailt.size() + nl.size() < size) mid += " "; if (headt.size() + mid.size() + tailt.size() < size) mid += nl; while (headt.size() + mid.size() + tailt.size() < size) mid += " ";
      c.content = headt + mid + tailt; c.combo = (int)r.below(12); c.mode = mode; c.chunk = mode ? 16 : 0; c.start = 0;
      if (c.content.size() != size) continue;
      if (!ctx.take()) continue;
      std::string id = "C19B|" + std::to_string(size) + "|" + std::to_string(rep) + "|" + std::to_string(mode) + "|" + std::to_string(ctx.seed); if (!ctx.begin(id, "file of " + std::to_string(size) + " bytes")) continue;
      ctx.cls("part:large-files"); if (size % 4096 == 0) ctx.cls("size:page-multiple"); ctx.nontrivial(id);
      FV v = check19(c);
      if (ctx.want_sample()) ctx.put_sample("file of " + std::to_string(size) + " bytes (23 code lines, comment padding)" + (mode ? ", counting" : "") + " -> " + (v.ok ? "same as the string call" : v.detail));
      if (!v.ok) { hz::Failure f = fail19(c, v); const char *root = getenv("VERIF_ROOT"); std::string rd = std::string(root ? root : "/verif") + "/replays"; mkdir(rd.c_str(), 0755); rd += "/bulk"; mkdir(rd.c_str(), 0755); std::string keep = rd + "/c19-large-" + std::to_string(size) + "-" + std::to_string(rep) + "-" + std::to_string(mode) + ".asm"; write_file(keep, c.content); f.caseid = "C19F|" + std::to_string(c.combo) + "|" + std::to_string(c.mode) + "|" + std::to_string(c.chunk) + "|" + keep; ctx.fail(f); }
    }
  }
  int reps = ctx.thorough() ? 48 : 12;
  for (size_t size : sizes) for (int rep = 0; rep < (size > 30000 ? std::min(reps, 4) : reps); rep++) for (int mode = 0; mode < 2; mode++) {
    bool failing = rep % 3 == 2, final_nl = rep & 1, crlf = (rep >> 1) & 1;
    C19Case c; c.content = sized_content(P, r, size, failing, final_nl, crlf); c.combo = (int)r.below(12); c.mode = mode; static const int CH[] = {0, 1, 2, 5, 16, 17, 64}; c.chunk = CH[r.below(7)]; c.start = r.below(3) == 0 ? (int)r.below(200) : 0; c.special = rep % 2 == 0 && mode == 0 ? 3 : 0;
    c.nulldest = mode == 1 && r.below(3) == 0; c.closed0 = r.below(6) == 0;
    if (r.below(7) == 0 && !c.content.empty()) { // bytes that are no assembly text: a byte order mark or other bytes in front, a byte somewhere inside, a NUL
      static const char *PRE[] = {"\xef\xbb\xbf", "\xff\xfe", "\xfe\xff", "\xef\xbb", "\x7f", "\x01", "\xc2\xa0", "#!"}; int k = (int)r.below(11);
      if (k < 8) c.content = std::string(PRE[k]) + c.content;   /* everything behind the prefix stays valid text */
      else if (k == 8) c.content[r.below(c.content.size())] = (char)(0x80 + r.below(128)); else if (k == 9) c.content[r.below(c.content.size())] = '\0'; else c.content[c.content.size() - 1] = (char)0xef; }
    { static const int FIT[] = {0, 0, 0, 8, 16, 17}; c.fit = FIT[r.below(6)]; if (r.below(4) == 0) c.pre = r.next() | 1; if (r.below(5) == 0) { c.nbuf = (int)r.below(80); c.start = c.start % (c.nbuf + 1); c.pre = 0; } }
    if (!ctx.take()) continue;
    std::string id = ser19_any(c); if (!ctx.begin(id, "file of " + std::to_string(size) + " bytes")) continue;
    if (c.fit) ctx.cls("instance:chunk-fitting"); if (c.nbuf < 100) ctx.cls("buffer:small"); if (c.pre) ctx.cls("instance:previous-life");
    ctx.cls("part:sizes"); if (size == 0) ctx.cls("size:empty"); if (size && size % 4096 == 0) ctx.cls("size:page-multiple"); if (!final_nl) ctx.cls("no-final-newline"); if (crlf) ctx.cls("crlf"); if (c.special == 3) ctx.cls("bin-file"); if (mode) ctx.cls("counting"); if (c.nulldest) ctx.cls("counting:null-result-pointer"); if (c.closed0) ctx.cls("process:descriptor-0-closed"); { bool raw = false; for (unsigned char ch : c.content) if (ch == 0 || ch > 0x7e) { raw = true; break; } if (raw) ctx.cls("content:bytes-that-are-no-text"); }
    if (size == 0 || size % 4096 == 0 || !final_nl) ctx.nontrivial(id);
    FV v = check19(c);
    if (v.ok && id.compare(0, 5, "C19F|") == 0) unlink(id.substr(id.rfind('|') + 1).c_str());   // the stored copy of a long content is only kept for a failing (or crashing) case
    if (ctx.want_sample()) ctx.put_sample("file of " + std::to_string(size) + " bytes" + (final_nl ? "" : " without final newline") + (crlf ? " (CRLF)" : "") + (failing ? " possibly with a bad line" : "") + (mode ? ", counting" : "") + " -> " + (v.ok ? "same as the string call" : v.detail));
    if (!v.ok) ctx.fail(fail19(c, v));
  }
  for (int sp = 1; sp <= 2; sp++) for (int mode = 0; mode < 2; mode++) { C19Case c; c.special = sp; c.mode = mode; if (!ctx.take()) continue; std::string id = ser19(c); if (!ctx.begin(id, sp == 1 ? "nonexistent path" : "directory")) continue; ctx.cls("part:missing"); ctx.nontrivial(id); FV v = check19(c); if (!v.ok) ctx.fail(fail19(c, v)); }
  for (int k = 0; k < 6; k++) for (int mode = 0; mode < 2; mode++) for (int ch : {0, 16, 17}) { C19Case c; c.special = 4; c.start = k; c.mode = mode; c.chunk = ch; if (!ctx.take()) continue; std::string id = ser19(c); if (!ctx.begin(id, ODD[k])) continue; ctx.cls("part:odd-files"); ctx.nontrivial(id); FV v = check19(c); if (ctx.want_sample()) ctx.put_sample(std::string(ODD[k]) + " -> " + (v.ok ? "returned" : v.detail)); if (!v.ok) ctx.fail(fail19(c, v)); }
  for (int k = 0; k < 6; k++) { C19Case c; c.special = 7; c.start = k; if (!ctx.take()) continue; std::string id = ser19(c); if (!ctx.begin(id, "bin file onto a refusing target")) continue; ctx.cls("part:bin-file-onto-refusing-target"); ctx.nontrivial(id); FV v = check19(c); if (ctx.want_sample()) ctx.put_sample(std::string(k >= 4 ? "asm_create_bin_file onto an existing write-only file, as an unprivileged user" : k / 2 % 2 == 0 ? "asm_create_bin_file(\"/dev/full\")" : "asm_create_bin_file under RLIMIT_FSIZE") + (k % 2 ? ", 20000 bytes" : ", 100 bytes") + " -> " + (v.ok ? "EXIT_FAILURE, or every byte in the file" : v.detail)); if (!v.ok) ctx.fail(fail19(c, v)); }
  for (int mode = 0; mode < 2; mode++) for (int credv = 0; credv < 4; credv++) { C19Case c; c.special = 6; c.mode = mode; c.start = credv; if (!ctx.take()) continue; std::string id = ser19(c); if (!ctx.begin(id, "unprivileged reader, file of another owner")) continue; ctx.cls("part:unprivileged-reader"); ctx.nontrivial(id); FV v = check19(c); if (ctx.want_sample()) ctx.put_sample(std::string("a process without privileges reads a world-readable file owned by root -> ") + (v.ok ? "same as the string call" : v.detail)); if (!v.ok) ctx.fail(fail19(c, v)); }
  for (int mode = 0; mode < 2; mode++) { C19Case c; c.special = 5; c.mode = mode; if (!ctx.take()) continue; std::string id = ser19(c); if (!ctx.begin(id, "120 failing attempts, then a readable file")) continue; ctx.cls("part:many-failing-attempts"); ctx.nontrivial(id); FV v = check19(c); if (ctx.want_sample()) ctx.put_sample(std::string("120 failing file attempts with few descriptors left, then a readable file -> ") + (v.ok ? "assembles like its contents" : v.detail)); if (!v.ok) ctx.fail(fail19(c, v)); }
  // rapidcheck: arbitrary sizes up to several pages
  auto gen_case = rc::gen::apply([&](int size, int seed, int combo, int mode, int chunk, bool nl, bool crlf, bool failing, int start) { hz::Rng rr((uint64_t)seed); C19Case c; c.content = sized_content(P, rr, (size_t)size, failing, nl, crlf); c.combo = combo; c.mode = mode; c.chunk = chunk - 3; c.start = start; c.special = (seed & 3) == 0 ? 3 : 0;
      c.nulldest = mode == 1 && ((seed >> 17) & 3) == 0; c.closed0 = ((seed >> 19) & 7) == 0;
      static const int FIT[] = {0, 0, 0, 8, 16, 17}; c.fit = FIT[(seed >> 4) % 6]; if (((seed >> 8) & 3) == 0) c.pre = (uint64_t)seed | 1; if (((seed >> 10) & 7) == 0) { c.nbuf = (seed >> 13) % 80; c.start %= (c.nbuf + 1); c.pre = 0; if (size > 200) c.content = sized_content(P, rr, (size_t)size % 60, failing, nl, crlf); } return c; },
    range(0, 17000), range(0, 1 << 30), range(0, 12), range(0, 2), range(0, 40), rc::gen::arbitrary<bool>(), rc::gen::arbitrary<bool>(), rc::gen::arbitrary<bool>(), range(0, 300));
  rc_rounds(ctx, "C19-files", ctx.thorough() ? 100000 : 12000, 100, [&]() {
    C19Case c = *gen_case; std::string id = ser19(c); if (!ctx.begin(id, "file of " + std::to_string(c.content.size()) + " bytes")) return;
    ctx.cls("part:random"); if (c.content.size() % 4096 == 0) ctx.nontrivial(id);
    FV v = check19(c);
    if (!v.ok) { hz::Failure f = fail19(c, v); if (ctx.match_known(f.tags).empty()) { rc_report(f); RC_FAIL(v.detail); } else ctx.fail(f); }
  });
}

// ===================================================================== C17
// scenario: 0 create internal, 1 create external, 2 long assembly with growth (internal), 3 file assembly, 4 file counting, 5 bin file, 6 file assembly of a long program into the internal buffer
struct C17Case { int scenario = 0; long fail_at = 0, fail_at2 = 0; uint64_t seed = 1, poolseed = 1; };
static std::string ser17(const C17Case &c) { return "C17|" + std::to_string(c.poolseed) + "|" + std::to_string(c.seed) + "|" + std::to_string(c.scenario) + "|" + std::to_string(c.fail_at) + "|" + std::to_string(c.fail_at2); }
static bool parse17(const std::string &s, C17Case &c) { auto f = split(s, '|'); if (f.size() != 6 || f[0] != "C17") return false; c.poolseed = strtoull(f[1].c_str(), nullptr, 10); c.seed = strtoull(f[2].c_str(), nullptr, 10); c.scenario = atoi(f[3].c_str()); c.fail_at = atol(f[4].c_str()); c.fail_at2 = atol(f[5].c_str()); return true; }
static const char *SCN[] = {"create (library-managed buffer)", "create (caller buffer)", "long assembly with growth", "asm_assemble_file", "asm_assemble_file_counting_chunks", "asm_create_bin_file", "asm_assemble_file of a long program (growth)", "asm_assemble_file of an empty file", "asm_assemble_file_counting_chunks of an empty file", "asm_set_offset far behind the code, then assembly"};

struct Step { std::string api; bool failed_call_here = false; };
struct FI { bool ok = true; std::string symptom, detail; long calls = 0; std::string faulted; std::string trace; };

// runs one scenario with the given fault plan; fail_at == 0 is the counting run
static FI run17(const Pool &P, const C17Case &c) {
  FI v; auto bad = [&](const std::string &s, const std::string &d) { v.ok = false; v.symptom = s; v.detail = d; return v; };
  hz::Rng r(c.seed);
  std::string prog_small = join(std::vector<std::string>{P.lines[r.below(P.lines.size())], P.lines[r.below(P.lines.size())], "ret"});
  std::string prog_long; int nlong = 1500 + (int)r.below(3000); for (int i = 0; i < nlong; i++) prog_long += P.lines[r.below(P.lines.size())] + "\n";
  // a third of the file scenarios: the operating system delivers the file in pieces (read() returns at most 64 / 4096 bytes) that end on line ends
  // (every line is 16 bytes long), so that a refused read() behind the first piece leaves a text that would assemble
  const bool pieces = (c.scenario == 3 || c.scenario == 4 || c.scenario == 6) && c.seed % 3 == 1;
  if (pieces) { static const char *W[] = {"add rax, rcx   \n", "mov r9d, 0x1234\n", "vpaddd ymm1,ymm2,ymm3\n", "nop7           \n"}; prog_small.clear(); for (int i = 0; i < 40; i++) prog_small += W[(i + c.seed) % 4 == 2 ? 0 : (i + c.seed) % 4]; prog_long.clear(); for (int i = 0; i < nlong; i++) prog_long += W[(i * 7 + c.seed) % 4 == 2 ? 3 : (i * 7 + c.seed) % 4]; }
  struct SR { ~SR() { al::short_reads(0); } } sr_guard; al::short_reads(pieces ? (c.scenario == 6 ? 4096 : 64) : 0);
  std::string inpath = tmpdir() + "/fi_in.asm", outpath = tmpdir() + "/fi_out.bin";
  write_file(inpath, c.scenario == 6 ? prog_long : c.scenario >= 7 ? std::string((c.seed % 3) == 2 ? "\n" : "") : prog_small);
  unlink(outpath.c_str());
  std::vector<uint8_t> ext(4096, 0xcc);
  alw.guard_code = 1; alw.salt = (long)(c.seed % 1000003); alw_reset(); alw.fail_at = c.fail_at; alw.fail_at2 = c.fail_at2;
  // growth scenarios also run with chunk fitting (sizes that do not divide the growth quantum) and as counting calls
  static const int FIT[] = {0, 0, 13, 7, 17, 9, 100, 11}; int fit = (c.scenario == 2 || c.scenario == 6) ? FIT[c.seed % 8] : 0; bool counting_main = (c.scenario == 2 || c.scenario == 6) && (c.seed % 4) == 3;
  // counting calls with every kind of chunk size (below 2 the call counts nothing and assembles plainly)
  static const int CC[] = {0, 16, 1, 4096}; const int cchunk = CC[(c.seed / 4) % 4]; const int cchunk4 = CC[c.seed % 4];
  auto api = [&](const char *name, const std::function<int()> &f, int &rc) -> bool { long before = alw.counter; alw.armed = 1; rc = f(); alw.armed = 0; bool hit = alw.failed_index > before && alw.failed_index <= alw.counter; if (hit) v.faulted = std::string(name) + " (" + alw_kind_name(alw.failed_kind) + " call #" + std::to_string(alw.failed_index) + ")"; v.trace += std::string(name) + "=" + std::to_string(rc) + (hit ? "[fault] " : " "); return hit; };
  assemblyline_t a = nullptr; int rc = 0; bool hit;
  // ---- create
  bool internal = c.scenario != 1;
  al::heap_fill((unsigned)(c.seed + c.scenario));
  { alw.armed = 1; long before = alw.counter; a = asm_create_instance(internal ? nullptr : ext.data(), 4096); alw.armed = 0; hit = alw.failed_index > before; v.trace += std::string("create=") + (a ? "ok" : "NULL") + (hit ? "[fault] " : " ");
    if (hit) { v.faulted = std::string("asm_create_instance (") + alw_kind_name(alw.failed_kind) + ")"; if (a != nullptr) { asm_destroy_instance(a); return bad("fault-ignored", "asm_create_instance returned an instance although its " + std::string(alw_kind_name(alw.failed_kind)) + " failed"); } v.calls = alw.counter; return v; }
    if (!a) return bad("create", "asm_create_instance returned NULL without any injected fault"); }
  // ---- earlier code that must survive
  std::string first = join(std::vector<std::string>{"mov rax, 0x1122334455667788", "add rax, rcx", "nop7"});
  hit = api("asm_assemble_str(first)", [&] { return asm_assemble_str(a, first.c_str()); }, rc);
  if (rc != 0 && !hit) { asm_destroy_instance(a); return bad("harness", "first program failed"); }
  int off1 = asm_get_offset(a); std::vector<uint8_t> snap((uint8_t *)asm_get_code(a), (uint8_t *)asm_get_code(a) + (rc == 0 ? off1 : 0));
  auto intact = [&](const std::string &when) -> bool { if (snap.empty()) return true; if (memcmp(asm_get_code(a), snap.data(), snap.size())) { bad("corrupted", "code assembled earlier changed " + when); return false; } return true; };
  // ---- the scenario's main call
  int cnt = 0; std::vector<char> pth(inpath.begin(), inpath.end()); pth.push_back(0);
  switch (c.scenario) {
    case 0: case 1: break;
    case 2: if (fit) asm_set_chunk_size(a, fit);
      hit = counting_main ? api("asm_assemble_string_counting_chunks(long)", [&] { std::vector<char> w(prog_long.begin(), prog_long.end()); w.push_back(0); int cc = 0; return asm_assemble_string_counting_chunks(a, w.data(), cchunk, &cc); }, rc)
                          : api(fit ? "asm_assemble_str(long, chunk fitting)" : "asm_assemble_str(long)", [&] { return asm_assemble_str(a, prog_long.c_str()); }, rc); if (hit && rc != EXIT_FAILURE && alw.failed_kind != ALW_MREMAP /* a library may get its memory another way: then the result is judged below */) { intact(""); asm_destroy_instance(a); return bad("fault-ignored", "growing the buffer failed (" + v.faulted + ") but the call returned " + std::to_string(rc)); } if (!hit && rc != 0) { asm_destroy_instance(a); return bad("harness", "long program failed without fault"); } break;
    case 3: case 6: if (fit) asm_set_chunk_size(a, fit);
      hit = counting_main ? api("asm_assemble_file_counting_chunks(long)", [&] { int cc = 0; return asm_assemble_file_counting_chunks(a, pth.data(), cchunk, &cc); }, rc) : api("asm_assemble_file", [&] { return asm_assemble_file(a, pth.data()); }, rc); if (hit && rc != EXIT_FAILURE) { asm_destroy_instance(a); return bad("fault-ignored", v.faulted + " failed but asm_assemble_file returned " + std::to_string(rc)); } if (!hit && rc != 0) { asm_destroy_instance(a); return bad("harness", "file program failed without fault"); } break;
    case 9: { int far = off1 + 13000 + (int)(c.seed % 7) * 6007; asm_set_offset(a, far);
      hit = api("asm_assemble_str(at a far offset)", [&] { return asm_assemble_str(a, prog_small.c_str()); }, rc); if (hit && rc != EXIT_FAILURE && alw.failed_kind != ALW_MREMAP /* a library may get its memory another way: then the result is judged below */) { intact(""); asm_destroy_instance(a); return bad("fault-ignored", "growing the buffer failed (" + v.faulted + ") but the call returned " + std::to_string(rc)); } if (!hit && rc != 0) { asm_destroy_instance(a); return bad("harness", "assembly at a far offset failed without fault"); }
      if (rc != 0) asm_set_offset(a, off1);   /* back to the end of the earlier code for the steps below */ else asm_set_offset(a, off1);
      break; }
    case 7: hit = api("asm_assemble_file(empty)", [&] { return (c.seed & 1) ? assemble_file(a, pth.data()) : asm_assemble_file(a, pth.data()); }, rc); if (hit && rc != EXIT_FAILURE) { asm_destroy_instance(a); return bad("fault-ignored", v.faulted + " failed but asm_assemble_file returned " + std::to_string(rc)); } if (!hit && rc != 0) { asm_destroy_instance(a); return bad("harness", "empty file failed without fault"); } break;
    case 8: hit = api("asm_assemble_file_counting_chunks(empty)", [&] { return asm_assemble_file_counting_chunks(a, pth.data(), cchunk4, &cnt); }, rc); if (hit && rc != EXIT_FAILURE) { asm_destroy_instance(a); return bad("fault-ignored", v.faulted + " failed but the call returned " + std::to_string(rc)); } if (!hit && rc != 0) { asm_destroy_instance(a); return bad("harness", "empty file failed without fault"); } break;
    case 4: hit = api("asm_assemble_file_counting_chunks", [&] { return asm_assemble_file_counting_chunks(a, pth.data(), cchunk4, &cnt); }, rc); if (hit && rc != EXIT_FAILURE) { asm_destroy_instance(a); return bad("fault-ignored", v.faulted + " failed but the call returned " + std::to_string(rc)); } if (!hit && rc != 0) { asm_destroy_instance(a); return bad("harness", "file program failed without fault"); } break;
    case 5: {
      hit = api("asm_create_bin_file", [&] { return asm_create_bin_file(a, outpath.c_str()); }, rc);
      std::string got; bool have = read_all(outpath, got); int off = asm_get_offset(a);
      bool complete = have && (int)got.size() == off && !memcmp(got.data(), asm_get_code(a), off);
      if (rc == EXIT_SUCCESS && (!complete || (hit && alw.failed_kind == ALW_FCLOSE))) { asm_destroy_instance(a); return bad("bin-file-success", "asm_create_bin_file returned EXIT_SUCCESS although " + (hit ? v.faulted + " failed" : std::string("the file is incomplete")) + " (file " + (have ? std::to_string(got.size()) : std::string("missing")) + " bytes, code " + std::to_string(off) + ")"); }
      if (!hit && rc != 0) { asm_destroy_instance(a); return bad("harness", "bin file failed without fault"); }
      break; }
  }
  if (!intact("after the faulted call (" + v.faulted + ")")) { asm_destroy_instance(a); return v; }
  if ((c.scenario == 2 || c.scenario == 6) && rc == EXIT_SUCCESS) {
    // whatever happened underneath, a call that reports success must have produced the whole program (a counting call: the plain code)
    std::vector<uint8_t> big(1 << 20, 0); assemblyline_t e = asm_create_instance(big.data(), (int)big.size()); if (fit && !counting_main) asm_set_chunk_size(e, fit); asm_set_offset(e, off1); asm_assemble_str(e, prog_long.c_str()); int n = asm_get_offset(e); asm_destroy_instance(e);
    if (asm_get_offset(a) != n || memcmp((uint8_t *)asm_get_code(a) + off1, big.data() + off1, n - off1)) { asm_destroy_instance(a); return bad("incomplete-success", "the call returned EXIT_SUCCESS (" + (v.faulted.empty() ? std::string("no fault") : v.faulted) + ") but its code differs from the caller-buffer result (offset " + std::to_string(asm_get_offset(a)) + " vs " + std::to_string(n) + ")"); }
  }
  // ---- the instance stays usable: more code can be appended (and grows the buffer again) without corrupting anything
  if (c.scenario == 2 || c.scenario == 6 || c.scenario == 3 || c.scenario == 9) {
    int off_before = asm_get_offset(a);
    if (off_before >= 0) {
      hit = api("asm_assemble_str(more)", [&] { return asm_assemble_str(a, prog_long.c_str()); }, rc);
      if (!hit && rc != 0) { asm_destroy_instance(a); return bad("unusable", "after " + (v.faulted.empty() ? std::string("the scenario") : v.faulted) + " a further assembly from offset " + std::to_string(off_before) + " failed"); }
      if (!intact("after appending more code")) { asm_destroy_instance(a); return v; }
      if (rc == 0) { // the appended code must equal what a caller buffer gets
        // same chunk setting and same absolute position on the reference (padding depends on both)
        std::vector<uint8_t> big(1 << 20, 0); assemblyline_t e = asm_create_instance(big.data(), (int)big.size()); if (fit) asm_set_chunk_size(e, fit); asm_set_offset(e, off_before); asm_assemble_str(e, prog_long.c_str()); int n = asm_get_offset(e); int off_after = asm_get_offset(a);
        bool same = off_after == n && !memcmp((uint8_t *)asm_get_code(a) + off_before, big.data() + off_before, n - off_before); asm_destroy_instance(e);
        if (!same) { asm_destroy_instance(a); return bad("corrupted", "code appended after " + (v.faulted.empty() ? std::string("the scenario") : v.faulted) + " differs from the caller-buffer result"); }
      }
    }
  }
  // ---- the instance is still usable for retrieval and can be destroyed
  if (asm_get_code(a) == nullptr) { return bad("code-lost", "asm_get_code returned NULL"); }
  hit = api("asm_destroy_instance", [&] { return asm_destroy_instance(a); }, rc);
  if (rc != EXIT_SUCCESS && rc != EXIT_FAILURE) return bad("destroy", "asm_destroy_instance returned " + std::to_string(rc));
  if (!hit && rc != EXIT_SUCCESS) return bad("destroy", "asm_destroy_instance failed without fault");
  v.calls = alw.counter;
  return v;
}
static hz::Failure fail17(const C17Case &c, const FI &v) { hz::Failure f; f.caseid = ser17(c); f.text = std::string(SCN[c.scenario]) + ", failing intercepted call #" + std::to_string(c.fail_at) + (c.fail_at2 ? " and #" + std::to_string(c.fail_at2) : "") + " : " + v.trace; f.symptom = v.symptom; f.detail = v.detail; f.tags = {"mn:fault", "form:scenario" + std::to_string(c.scenario), "sym:" + v.symptom}; return f; }

void prop_c17(hz::Ctx &ctx) {
  if (!have_fi()) { hz::Failure f; f.caseid = "C17|nofi"; f.text = "engine built without fault layer"; f.symptom = "harness"; f.tags = {"sym:harness"}; ctx.fail(f); return; }
  const Pool &P = pool(ctx);
  int variants = ctx.thorough() ? 80 : 16;
  for (int scn = 0; scn < 10; scn++) for (int var = 0; var < (scn >= 7 && scn != 9 ? std::min(variants, 6) : variants); var++) {
    C17Case base; base.scenario = scn; base.seed = ctx.seed * 131 + scn * 17 + var; base.poolseed = ctx.seed;
    // counting run: how many interposed calls does the scenario make (identical in every worker)
    FI cnt = run17(P, base);
    if (!cnt.ok) { if (ctx.take()) { ctx.begin(ser17(base), SCN[scn]); ctx.fail(fail17(base, cnt)); } continue; }
    std::vector<unsigned char> kinds(alw.log, alw.log + alw.log_n);
    for (long k = 1; k <= cnt.calls; k++) {
      if (!ctx.take()) continue;
      C17Case c = base; c.fail_at = k;
      std::string id = ser17(c); if (!ctx.begin(id, std::string(SCN[scn]) + " fault #" + std::to_string(k))) continue;
      FI v = run17(P, c);
      std::string kind = k - 1 < (long)kinds.size() ? alw_kind_name(kinds[k - 1]) : "?";
      ctx.cls(std::string("scenario:") + SCN[scn]); ctx.cls("fault:" + kind);
      if (k > 1) ctx.nontrivial(std::to_string(scn) + "/" + std::to_string(var) + "/" + std::to_string(k));
      if (ctx.want_sample()) ctx.put_sample(std::string(SCN[scn]) + ": " + kind + " (intercepted call " + std::to_string(k) + " of " + std::to_string(cnt.calls) + ") fails -> " + (v.ok ? v.trace : v.detail));
      if (!v.ok) ctx.fail(fail17(c, v));
    }
    // sampled pairs of faults
    hz::Rng r(base.seed ^ 0x17); int npairs = ctx.thorough() ? 30 : 6;
    for (int p = 0; p < npairs && cnt.calls >= 2; p++) {
      long k1 = 1 + (long)r.below(cnt.calls), k2 = 1 + (long)r.below(cnt.calls); if (k1 == k2) continue; if (k1 > k2) std::swap(k1, k2);
      if (!ctx.take()) continue; C17Case c = base; c.fail_at = k1; c.fail_at2 = k2; std::string id = ser17(c); if (!ctx.begin(id, std::string(SCN[scn]) + " faults #" + std::to_string(k1) + ",#" + std::to_string(k2))) continue;
      ctx.cls("faults:pair"); ctx.nontrivial(id); FI v = run17(P, c); if (!v.ok) ctx.fail(fail17(c, v));
    }
  }
}

int replay_fi(const std::string &caseid) {
  hz::Ctx ctx;
  if (!have_fi()) { printf("this replay needs the fault-injectable engine (alverif_fi)\n"); return 2; }
  if (caseid.compare(0, 5, "C19F|") == 0 && split(caseid, '|').size() == 7) { auto f = split(caseid, '|'); C19Case c; if (!parse19("C19|" + f[1] + "|" + f[2] + "|" + f[3] + "|" + f[4] + "|" + f[5] + "|", c)) return 2; if (!read_all(f[6], c.content)) { printf("cannot read %s\n", f[6].c_str()); return 2; }
    FV v = check19(c); printf("file of %zu bytes\n", c.content.size()); if (v.ok) { printf("OK\n"); return 0; } printf("FAIL %s : %s\n", v.symptom.c_str(), v.detail.c_str()); return 1; }
  if (caseid.compare(0, 5, "C19F|") == 0) { auto f = split(caseid, '|'); if (f.size() != 5) return 2; C19Case c; c.combo = atoi(f[1].c_str()); c.mode = atoi(f[2].c_str()); c.chunk = atoi(f[3].c_str()); if (!read_all(f[4], c.content)) { printf("cannot read %s\n", f[4].c_str()); return 2; } FV v = check19(c); printf("file of %zu bytes\n", c.content.size()); if (v.ok) { printf("OK\n"); return 0; } printf("FAIL %s : %s\n", v.symptom.c_str(), v.detail.c_str()); return 1; }
  if (caseid.compare(0, 4, "C19|") == 0) { C19Case c; if (!parse19(caseid, c)) return 2; FV v = check19(c); printf("file of %zu bytes\n", c.content.size()); if (v.ok) { printf("OK\n"); return 0; } printf("FAIL %s : %s\n", v.symptom.c_str(), v.detail.c_str()); return 1; }
  if (caseid.compare(0, 4, "C17|") == 0) { C17Case c; if (!parse17(caseid, c)) return 2; ctx.seed = c.poolseed; FI v = run17(pool(ctx), c); printf("%s: %s\n", SCN[c.scenario], v.trace.c_str()); if (v.ok) { printf("OK\n"); return 0; } printf("FAIL %s : %s\n", v.symptom.c_str(), v.detail.c_str()); return 1; }
  return 2;
}
