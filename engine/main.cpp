// alverif: engine entry point.
//   alverif run <prop> --tier quick|thorough --seed N --jobs J --out DIR --known FILE
//   alverif replay <prop> <caseid>
//   alverif decode <hex bytes...>
#include "props.hpp"
#include "x86dec.hpp"
#include <map>

static std::map<std::string, hz::PropFn> registry() {
  return {
    {"C01", prop_c01}, {"C02", prop_c02}, {"C03", prop_c03}, {"C04", prop_c04}, {"C05", prop_c05}, {"C10", prop_c10}, {"C11", prop_c11}, {"C16", prop_c16}, {"C06", prop_c06}, {"C12", prop_c12}, {"C13", prop_c13}, {"C14", prop_c14}, {"C15", prop_c15}, {"C07", prop_c07}, {"C08", prop_c08}, {"C09G", prop_c09_grammar}, {"C17", prop_c17}, {"C20", prop_c20}, {"C19", prop_c19},
  };
}

int main(int argc, char **argv) {
  if (argc < 2) { fprintf(stderr, "usage\n"); return 2; }
  signal(SIGPIPE, SIG_IGN);   // a child that exits before reading all of its stdin must not kill the worker
  for (int fd = 0; fd < 3; fd++) if (fcntl(fd, F_GETFD) == -1) { int n = open("/dev/null", O_RDWR); (void)n; }   // a closed standard descriptor would be reused by pipe()
  std::string cmd = argv[1];
  if (cmd == "decode") {
    std::vector<uint8_t> b; for (int i = 2; i < argc; i++) b.push_back((uint8_t)strtol(argv[i], nullptr, 16));
    size_t off = 0;
    while (off < b.size()) { x86::Insn I = x86::decode(b.data() + off, b.size() - off); printf("%s\n", x86::to_string(I).c_str()); if (!I.ok) return 1; off += I.len; }
    return 0;
  }
  if (cmd == "selftest-dump" && argc >= 4) return selftest_dump(strtoull(argv[2], nullptr, 10), atoi(argv[3]));
  if (cmd == "selftest-check" && argc >= 3) return selftest_check(argv[2]);
  if (cmd == "replay" && argc >= 4) {
    std::string prop = argv[2], cid = argv[3];
    if (cid.compare(0, 2, "R|") == 0 || cid.compare(0, 3, "RA|") == 0) return replay_reject(cid);
    if (cid.compare(0, 2, "F|") == 0 || cid.compare(0, 2, "K|") == 0 || cid.compare(0, 3, "BF|") == 0) return replay_line(prop, cid);
    if (cid.compare(0, 3, "FZ|") == 0 || cid.compare(0, 3, "FO|") == 0) return replay_fz(cid);
    if (cid.compare(0, 4, "C17|") == 0 || cid.compare(0, 3, "C19") == 0) return replay_fi(cid);
    if (cid.compare(0, 4, "C20|") == 0) return replay_cli(cid);
    if (cid.compare(0, 4, "C07|") == 0 || cid.compare(0, 4, "C08|") == 0 || cid.compare(0, 5, "C08U|") == 0 || cid.compare(0, 5, "C08M|") == 0) return replay_buf(cid);
    if (cid.size() > 5 && cid[0] == 'C' && (cid[3] == '|' || cid[4] == '|')) return replay_hist(prop, cid, 1);
    if (prop == "C11" || prop == "C16") return replay_modes(prop, cid);
    return replay_line(prop, cid);
  }
  if (cmd == "run" && argc >= 3) {
    std::string prop = argv[2], tier = "quick", out = "/verif/build/run", known = "/verif/known_findings.txt"; uint64_t seed = 1; int jobs = 16;
    for (int i = 3; i + 1 < argc; i += 2) { std::string a = argv[i], v = argv[i + 1];
      if (a == "--tier") tier = v; else if (a == "--seed") seed = strtoull(v.c_str(), nullptr, 10); else if (a == "--jobs") jobs = atoi(v.c_str()); else if (a == "--out") out = v; else if (a == "--known") known = v; }
    auto reg = registry(); auto it = reg.find(prop); if (it == reg.end()) { fprintf(stderr, "unknown property %s\n", prop.c_str()); return 2; }
    auto kf = hz::load_known(known);
    int crashes = hz::fanout(prop, tier, seed, jobs, out, kf, it->second);
    fprintf(stderr, "workers finished, crashes=%d\n", crashes);
    return 0;
  }
  fprintf(stderr, "bad command\n"); return 2;
}
