// C18: independent instances used concurrently from different threads.
// Built twice by driver/c18.py: with ThreadSanitizer (data races on library-internal shared state) and with
// ASan+UBSan (memory errors under concurrency).  In both builds every thread's results are compared with the
// single-threaded reference execution of the same private script.
//   c18_threads <seed> <nthreads> <scripts_per_thread> <rounds> [--dump]
#include "../prog.hpp"
#include <atomic>
#include <pthread.h>
#include <sched.h>
#include <sys/stat.h>

using namespace prog;
#if defined(__has_feature)
#if __has_feature(thread_sanitizer)
#define TSAN_BUILD 1
#endif
#endif
#ifndef TSAN_BUILD
#define TSAN_BUILD 0
#endif

struct Op { int kind; /*0 create+assemble+destroy cycle*/ int combo, mode, chunk, start; bool internal; std::string program; int yield_mask; int via_file = 0; /*1 the program is read through asm_assemble_file, 2 a directory is assembled (must fail), 3 deprecated alias*/ std::string path; bool binfile = false; std::string binpath; /* asm_create_bin_file into a file of this thread, read back */ };
struct Res { int rc, off, cnt; uint64_t hash; bool operator==(const Res &o) const { return rc == o.rc && off == o.off && cnt == o.cnt && hash == o.hash; } };

static std::atomic<int> in_create{0}, in_assemble{0}; static std::atomic<long> overlaps{0};
static void maybe_yield(int mask, int bit) { if (mask & bit) sched_yield(); }

static Res exec(const Op &op, bool track) {
  Res r{0, 0, 0, 0};
  std::vector<uint8_t> ext(1 << 16, 0xcc);
  if (track) { in_create++; if (in_assemble.load() > 0) overlaps++; }
  assemblyline_t a = asm_create_instance(op.internal ? nullptr : ext.data(), (int)ext.size());
  if (track) in_create--;
  maybe_yield(op.yield_mask, 1);
  al::apply_opts(a, combo_opts(op.combo));
  if (op.mode == 1) asm_set_chunk_size(a, op.chunk);
  asm_set_offset(a, op.start);
  maybe_yield(op.yield_mask, 2);
  if (track) { in_assemble++; if (in_create.load() > 0) overlaps++; }
  std::vector<char> pth(op.path.begin(), op.path.end()); pth.push_back(0);
  if (op.via_file == 2) r.rc = asm_assemble_file(a, pth.data());                       // a directory: open and fstat succeed, reading fails
  else if (op.via_file == 1) r.rc = op.mode == 2 ? asm_assemble_file_counting_chunks(a, pth.data(), op.chunk, &r.cnt) : asm_assemble_file(a, pth.data());
  else if (op.mode == 2) { std::vector<char> w(op.program.begin(), op.program.end()); w.push_back(0); r.rc = asm_assemble_string_counting_chunks(a, w.data(), op.chunk, &r.cnt); }
  else r.rc = op.via_file == 3 ? assemble_str(a, op.program.c_str()) : asm_assemble_str(a, op.program.c_str());
  if (track) in_assemble--;
  r.off = asm_get_offset(a);
  if (r.rc == 0 && r.off >= op.start && (op.internal || r.off <= (int)ext.size())) { const uint8_t *p = (const uint8_t *)asm_get_code(a); uint64_t h = 1469598103934665603ULL; for (int i = 0; i < r.off; i++) { h ^= p[i]; h *= 1099511628211ULL; } r.hash = h; }
  if (op.binfile && r.rc == 0) { // the code goes to this thread's own file and is read back: the file's bytes enter the result
    maybe_yield(op.yield_mask, 2); int rb = asm_create_bin_file(a, op.binpath.c_str()); uint64_t h = r.hash ^ 0x9e3779b97f4a7c15ULL ^ (uint64_t)rb;
    FILE *f = fopen(op.binpath.c_str(), "rb"); if (f) { int ch; long n = 0; while ((ch = fgetc(f)) != EOF) { h ^= (uint8_t)ch; h *= 1099511628211ULL; n++; } fclose(f); h ^= (uint64_t)n << 32; unlink(op.binpath.c_str()); } else h ^= 0xdead;
    r.hash = h; }
  maybe_yield(op.yield_mask, 4);
  asm_destroy_instance(a);
  return r;
}

// the shortest possible path from asm_create_instance to the first table lookup (used for the first operation of a
// fresh process, where the only question is whether the very first instances can be created concurrently)
static Res exec_min(const Op &op) {
  Res r{0, 0, 0, 0}; uint8_t buf[256];
  assemblyline_t a = asm_create_instance(buf, sizeof buf);
  r.rc = asm_assemble_str(a, op.program.c_str());
  r.off = asm_get_offset(a);
  if (r.rc == 0 && r.off > 0 && r.off <= (int)sizeof buf) { uint64_t h = 1469598103934665603ULL; for (int i = 0; i < r.off; i++) { h ^= buf[i]; h *= 1099511628211ULL; } r.hash = h; }
  asm_destroy_instance(a);
  return r;
}
static bool g_threads_first = false;
struct ThreadArg { std::vector<Op> *script; std::vector<Res> *out; pthread_barrier_t *bar; };
static std::atomic<int> ready{0}; static std::atomic<bool> go{false};
// all threads leave the gate within nanoseconds of each other (a pthread barrier wakes them one by one)
// warm up everything that is not the library's own state: this thread's malloc arena, the text pages of the binary and the
// script's strings, so that the first library calls of all threads really overlap
static volatile unsigned char g_sink;
static void warm_up(std::vector<Op> *script) {
  void *w = malloc(sizeof(void *) * 16); free(w);
  FILE *m = fopen("/proc/self/maps", "r"); if (m) { char line[512]; while (fgets(line, sizeof line, m)) { unsigned long a, b; char perm[8]; if (sscanf(line, "%lx-%lx %7s", &a, &b, perm) == 3 && perm[2] == 'x' && perm[0] == 'r' && b - a < (64u << 20) && strstr(line, "[v") == nullptr) for (unsigned long q = a; q < b; q += 4096) g_sink ^= *(volatile unsigned char *)q; } fclose(m); }
  for (auto &op : *script) for (char ch : op.program) g_sink ^= (unsigned char)ch;
}
static void *worker(void *p) { ThreadArg *t = (ThreadArg *)p; t->out->reserve(t->script->size()); if (g_threads_first) warm_up(t->script); ready++; while (!go.load(std::memory_order_acquire)) { } bool first = g_threads_first; for (auto &op : *t->script) { t->out->push_back(first ? exec_min(op) : exec(op, true)); first = false; } return nullptr; }

int main(int argc, char **argv) {
  if (argc < 5) { fprintf(stderr, "usage: c18_threads seed nthreads scripts rounds [threads-first]\n"); return 2; }
  uint64_t seed = strtoull(argv[1], nullptr, 10); int nth = atoi(argv[2]), nops = atoi(argv[3]), rounds = atoi(argv[4]);
  // threads-first: the concurrent phase is the very first use of the library in this process (the reference is computed afterwards)
  bool threads_first = argc > 5; g_threads_first = threads_first;
  std::string dir = std::string(getenv("VERIF_ROOT") ? getenv("VERIF_ROOT") : "/verif") + "/build/tmp"; mkdir((std::string(getenv("VERIF_ROOT") ? getenv("VERIF_ROOT") : "/verif") + "/build").c_str(), 0755); mkdir(dir.c_str(), 0755); dir += "/t" + std::to_string(getpid()); mkdir(dir.c_str(), 0755);
  // keep the library's stderr chatter out of the sanitizer report
  Pool P = threads_first ? Pool() : build_pool(seed, 1);
  if (threads_first) { // a fixed pool: building the real one would use the library before the threads do
    P.lines = {"xor rax, rax", "vpaddq ymm1, ymm2, ymm3", "mov rax, 0x1122334455667788", "add dword [rbx+rcx*4+8], 5", "shlx r8, r9, r10", "jne 0x100", "sub rsp, 8", "cmovne rdx, rsi", "lea r15, [2*rax]", "push r12", "pxor xmm1, xmm2", "test al, 1", "imul rcx, rdx, 7", "xchg rbx, rcx", "ror rdx, 3", "nop5"};
    P.bad = {"foo rax, rbx", "mov rax, [rbx", "add rax, zzz"}; }
  hz::Rng r(seed * 7 + 18);
  long mismatches = 0, evals = 0; std::string first;
  for (int round = 0; round < rounds; round++) {
    std::vector<std::vector<Op>> scripts(nth); std::vector<std::vector<Res>> ref(nth), got(nth);
    static const int CH[] = {0, 1, 2, 5, 16, 17, 64};
    for (int t = 0; t < nth; t++) for (int i = 0; i < nops; i++) {
      Op op; op.kind = 0; op.combo = (int)r.below(12); op.mode = (int)r.below(3); op.chunk = CH[r.below(7)]; op.start = r.below(3) == 0 ? (int)r.below(100) : 0; op.internal = r.below(3) == 0; op.yield_mask = (int)r.below(8);
      int n = 1 + (int)r.below(12); bool failing = r.below(6) == 0;
      // now and then a program long enough to make the library-managed buffer grow (and move) while other threads map and unmap theirs
      // (not in the ThreadSanitizer build: it does not follow mremap, so a buffer that moved into an address range another thread used
      // before is reported as a race on that stale shadow state)
      // an offset far behind the code of a library-managed instance, such that the grown buffer is an exact number of pages long
      if (!threads_first && !TSAN_BUILD && r.below(7) == 0) { op.internal = true; op.start = (3 + (int)r.below(6)) * 4096 - 20 - (r.below(3) == 0 ? (int)r.below(3) : 0); }
      if (!threads_first && !TSAN_BUILD && r.below(9) == 0) { op.internal = true; n = 1300 + (int)r.below(900); failing = false; op.start = 0; }
      for (int k = 0; k < n; k++) { if (failing && k == n / 2) op.program += P.bad[r.below(P.bad.size())] + "\n"; op.program += P.lines[r.below(P.lines.size())] + "\n"; }
      // lookups of every first letter: lines start with different mnemonics by construction of the pool
      if (threads_first && i == 0) { op.internal = false; op.mode = 0; op.start = 0; op.yield_mask = 0; static const char *LATE[] = {"xend", "xend", "xor rax, rax", "xend", "sfence", "xchg rbx, rcx", "xend", "vpxor ymm1, ymm2, ymm3"}; op.program = std::string(LATE[(t + round) % 8]) + "\n"; } // late first letters, cheapest tokenisation
      int fsel = threads_first && i == 0 ? 9 : (int)r.below(10);
      if (fsel < 3) { op.via_file = 1; op.path = dir + "/p" + std::to_string(t) + "_" + std::to_string(i) + ".asm"; FILE *f = fopen(op.path.c_str(), "wb"); if (f) { fwrite(op.program.data(), 1, op.program.size(), f); fclose(f); } }
      else if (fsel == 3) { op.via_file = 2; op.path = dir; }
      else if (fsel == 4) op.via_file = 3;
      if (!(threads_first && i == 0) && r.below(5) == 0) { op.binfile = true; op.binpath = dir + "/o" + std::to_string(t) + "_" + std::to_string(i) + ".bin"; }
      scripts[t].push_back(op);
    }
    // every fourth operation slot: all threads assemble one and the same source file (behind a long comment, so that their reads overlap),
    // each on its own instance with its own options - a shared input is no shared state
    if (!threads_first) for (int i = 0; i < nops; i++) if ((round + i) % 4 == 0) {
      std::string shared = dir + "/shared_" + std::to_string(i) + ".asm", text = "; " + std::string(200000 + 4096 * (size_t)((round + i) % 5), 'x') + "\n" + scripts[0][i].program;
      FILE *f = fopen(shared.c_str(), "wb"); if (!f) continue; fwrite(text.data(), 1, text.size(), f); fclose(f);
      for (int t = 0; t < nth; t++) { Op &op = scripts[t][i]; op.via_file = 1; op.path = shared; op.program = text; if (op.start > 100) op.start = 0; }
    }
    if (!threads_first) for (int t = 0; t < nth; t++) for (auto &op : scripts[t]) ref[t].push_back(exec(op, false));   // single-threaded reference
    pthread_barrier_t bar; pthread_barrier_init(&bar, nullptr, nth);
    std::vector<pthread_t> th(nth); std::vector<ThreadArg> args(nth);
    ready = 0; go = false;
    for (int t = 0; t < nth; t++) { args[t] = {&scripts[t], &got[t], &bar}; pthread_create(&th[t], nullptr, worker, &args[t]); }
    while (ready.load() < nth) sched_yield();
    go.store(true, std::memory_order_release);
    for (int t = 0; t < nth; t++) pthread_join(th[t], nullptr);
    pthread_barrier_destroy(&bar);
    if (threads_first) for (int t = 0; t < nth; t++) { bool first = true; for (auto &op : scripts[t]) { ref[t].push_back(first ? exec_min(op) : exec(op, false)); first = false; } }   // reference computed after the threads
    for (int t = 0; t < nth; t++) for (size_t i = 0; i < scripts[t].size(); i++) { evals++; if (i >= got[t].size() || !(got[t][i] == ref[t][i])) { mismatches++; if (first.empty()) { char b[200]; snprintf(b, sizeof b, "round %d thread %d op %zu: concurrent rc=%d off=%d cnt=%d, alone rc=%d off=%d cnt=%d", round, t, i, i < got[t].size() ? got[t][i].rc : -9, i < got[t].size() ? got[t][i].off : -9, i < got[t].size() ? got[t][i].cnt : -9, ref[t][i].rc, ref[t][i].off, ref[t][i].cnt); first = b; first += " ; program: " + hz::jesc(scripts[t][i].program.substr(0, 200)); } } }
  }
  printf("{\"evaluations\":%ld,\"mismatches\":%ld,\"overlaps\":%ld,\"threads\":%d,\"first\":\"%s\"}\n", evals, mismatches, overlaps.load(), nth, hz::jesc(first).c_str());
  return mismatches ? 1 : 0;
}
