// C09 part (ii): grammar-based structural mutation of valid lines, aimed at the fixed-size arrays of the
// parser (operand array, 100-byte filtered line, mnemonic/register buffers).  Part (i) is the libFuzzer
// target in engine/fuzz/, driven by driver/c09.py.
#include "prog.hpp"
#include "props.hpp"
#include <cerrno>
#include <fcntl.h>
#include <unistd.h>

using namespace prog;

static std::string mutate(const std::string &line, hz::Rng &r, std::string &what) {
  std::string s = line; int nm = 1 + (int)r.below(3);
  static const char *TOK[] = {"rax", "xmm15", "ymm0", "[rax]", "[rbx+rcx*8-0x7fffffff]", "0xffffffffffffffff", "-1", "byte", "qword", "far", "short", "long", "word", "dword", "[", "]", "*", "+", "-", ",", ";", ":", "%", "0x", "r15d", "mm7", "cl", "ah", "[rsp+rsp]", "[2*rax]", "[0x10]"};
  for (int k = 0; k < nm; k++) {
    switch (r.below(12)) {
      case 0: { int n = 1 + (int)r.below(8); for (int i = 0; i < n; i++) { s += ", "; s += TOK[r.below(31)]; } what += "append-operands "; break; }
      case 1: { size_t c = s.find(','); if (c != std::string::npos) s = s.substr(0, c); what += "drop-operands "; break; }
      case 2: { size_t target = 90 + r.below(211); size_t sp = s.find(' '); std::string pad(target > s.size() ? target - s.size() : 1, r.coin() ? ' ' : '0'); if (sp != std::string::npos && r.coin()) s.insert(sp + 1, pad); else s += pad; what += "lengthen "; break; }
      case 3: { size_t n = 13 + r.below(8); std::string m; for (size_t i = 0; i < n; i++) m += (char)('a' + r.below(26)); size_t sp = s.find(' '); s = m + (sp == std::string::npos ? "" : s.substr(sp)); what += "long-mnemonic "; break; }
      case 4: { size_t n = 5 + r.below(4); std::string t = r.coin() ? "r" : r.coin() ? "xmm" : "e"; while (t.size() < n) t += (char)(r.coin() ? '0' + r.below(10) : 'a' + r.below(26)); size_t sp = s.find(' '); if (sp == std::string::npos) s += " " + t; else s.insert(sp + 1, t + ", "); what += "long-register "; break; }
      case 5: { int n = 1 + (int)r.below(6); std::string b; for (int i = 0; i < n; i++) b += r.coin() ? "[" : "]"; s.insert(r.below(s.size() + 1), b); what += "brackets "; break; }
      case 6: { int n = 1 + (int)r.below(40); std::string d; for (int i = 0; i < n; i++) d += "+-0123456789x*"[r.below(14)]; s.insert(r.below(s.size() + 1), d); what += "sign-digit-run "; break; }
      case 7: { int n = 1 + (int)r.below(4); for (int i = 0; i < n; i++) s.insert(r.below(s.size() + 1), 1, (char)(1 + r.below(255))); what += "random-bytes "; break; }
      case 8: { size_t sp = s.find(' '); std::string kw; int n = 1 + (int)r.below(5); for (int i = 0; i < n; i++) { kw += TOK[7 + r.below(7)]; kw += " "; } if (sp == std::string::npos) s += " " + kw; else s.insert(sp + 1, kw); what += "keywords "; break; }
      case 9: { size_t a = r.below(s.size() + 1), b = r.below(s.size() + 1); if (a > b) std::swap(a, b); s.erase(a, b - a); what += "delete-span "; break; }
      case 10: { std::string t = TOK[r.below(31)]; s.insert(r.below(s.size() + 1), t); what += "insert-token "; break; }
      case 11: { s += r.coin() ? "\n" + s : "\r\n\t" + s + ";" + s; what += "duplicate-line "; break; }
    }
  }
  return s;
}

struct FzCase { std::string text; int combo = 11, mode = 0, chunk = 16; bool internal = false; int n = 300; int start = 0; int flags = 0; /* 1 debug listing on, 2 a second call behind the first, 4 deprecated alias */ };
static std::string tohex(const std::string &s) { std::string o; char b[4]; for (unsigned char c : s) { snprintf(b, sizeof b, "%02x", c); o += b; } return o; }
static std::string fromhex(const std::string &h) { std::string o; for (size_t i = 0; i + 1 < h.size(); i += 2) o += (char)strtol(h.substr(i, 2).c_str(), nullptr, 16); return o; }
static std::string serfz(const FzCase &c) { return "FZ|" + std::to_string(c.combo) + "|" + std::to_string(c.mode) + "|" + std::to_string(c.chunk) + "|" + (c.internal ? "1" : "0") + "|" + std::to_string(c.n) + "|" + tohex(c.text) + "|" + std::to_string(c.start) + "|" + std::to_string(c.flags); }

static bool run_fz(const FzCase &c, std::string &why) {
  // the debug listing goes to stdout: point it at /dev/null for the duration of the case
  int saved = -1; if (c.flags & 1) { fflush(stdout); saved = dup(1); int nul = open("/dev/null", O_WRONLY); if (nul >= 0) { dup2(nul, 1); close(nul); } }
  struct Restore { int fd; ~Restore() { if (fd >= 0) { fflush(stdout); dup2(fd, 1); close(fd); } } } restore{saved};
  std::vector<uint8_t> ext(c.n, 0x5a); ext.shrink_to_fit();
  al::tight_code(c.internal);   // a library-managed buffer ends directly in front of an inaccessible page (fault-injectable build)
  static uint8_t dummy; assemblyline_t a = asm_create_instance(c.internal ? nullptr : (c.n ? ext.data() : &dummy), c.n);
  if (!a) { why = "create failed"; return false; }
  al::apply_opts(a, combo_opts(c.combo)); if (c.mode == 1) asm_set_chunk_size(a, c.chunk);
  if (c.flags & 1) asm_set_debug(a, true);
  asm_set_offset(a, c.start);
  bool ok = true; int start = c.start;
  { static const int E[] = {0, EINTR, ERANGE, ENOMEM, EAGAIN, EINVAL, EBADF, EIO}; errno = E[(c.text.size() + c.start + c.chunk) % 8]; }
  for (int call = 0; call < ((c.flags & 2) ? 2 : 1) && ok; call++) {
    int rc, cnt = 0;
    if (c.mode == 2) { std::vector<char> w(c.text.begin(), c.text.end()); w.push_back(0); rc = (c.flags & 4) ? assemble_string_counting_chunks(a, w.data(), c.chunk, &cnt) : asm_assemble_string_counting_chunks(a, w.data(), c.chunk, &cnt); }
    else { // const char * entry points: every other case passes the text in read-only memory that ends with its NUL in front of an inaccessible page
      std::unique_ptr<al::RoText> ro; const char *tp = c.text.c_str(); if ((c.text.size() + c.start) % 2 == 0) { ro.reset(new al::RoText(c.text.c_str())); if (ro->p) tp = ro->p; }
      rc = (c.flags & 4) ? assemble_str(a, tp) : asm_assemble_str(a, tp); }
    int off = asm_get_offset(a);
    if (rc != 0 && rc != 1) { ok = false; why = "return value " + std::to_string(rc); }
    if (ok && rc == 0 && (off < start || (!c.internal && off > c.n))) { ok = false; why = "offset " + std::to_string(off) + " outside the buffer"; }
    start = off;
  }
  asm_destroy_instance(a);
  return ok;
}

// a line whose filtered text (blanks removed except the one behind the mnemonic) has exactly `target` characters and
// ends in a fragment: the parser's look-ahead meets the end of its 100-byte line window
static std::string edge_line(hz::Rng &r, std::string &what) {
  static const char *HEAD[] = {"mov rax, 0x", "add qword [rbx+rcx*8+0x", "mov r", "lea rax, [rbx+", "vperm2i128 ymm1, ymm2, [rax+0x", "jmp 0x", "mov qword [0x", "push -", "mov rax, [-0x", "nop", "xchg rax, [2*rcx+"};
  static const char *TAIL[] = {"", "5", ",[-", ",[", ",[-0", ",[-0x", "10],7", "],0x", "],-", "]", ",", ",rbx", ",[rax+", ",[rax*", ",[2*", ",qword", ",far", ",-", ",0", ",0x", ";c", "\r", "\r\n", "\n", " ", "\t", ":", "%", "]]", ",[]", ",[0", ",[rsp+rsp", "x", "\x7f"};
  std::string head = HEAD[r.below(11)], tail = TAIL[r.below(34)]; size_t target = 94 + r.below(10);
  auto flt = [](const std::string &t) { size_t n = 0; bool sp = false; for (char ch : t) { if (ch == ';' || ch == '%' || ch == '\r' || ch == '\n') break; if ((unsigned char)ch > '!') n++; else if (ch == ' ' && !sp) { n++; sp = true; } } return n; };
  size_t have = flt(head + tail); std::string fill(target > have ? target - have : 0, "0a9f1r[,"[r.below(6) ? 0 : r.below(8)]);
  what += "window-edge ";
  return head + fill + tail;
}

// file entry points on paths whose size (fstat) and content (read) disagree, on devices and directories: the call comes back
static void odd_files(hz::Ctx &ctx) {
  static const char *ODD[] = {"/sys/devices/system/cpu/online", "/proc/self/cmdline", "/dev/null", "/proc/self/status", "/sys/kernel/mm/transparent_hugepage/enabled", "/proc/self/maps", "/", "/proc/self/fd", "/dev/zero", "/proc/self/environ"};
  for (int k = 0; k < 10; k++) for (int entry = 0; entry < 3; entry++) for (int internal = 0; internal < 2; internal++) {
    if (!ctx.take()) continue;
    std::string id = "FO|" + std::to_string(k) + "|" + std::to_string(entry) + "|" + std::to_string(internal); if (!ctx.begin(id, ODD[k])) continue;
    ctx.cls("part:odd-files"); ctx.nontrivial(id);
    if (k == 8 && access("/dev/zero", R_OK) != 0) continue;
    std::vector<uint8_t> b(4096, 0x5a); assemblyline_t a = asm_create_instance(internal ? nullptr : b.data(), 4096); std::vector<char> p(ODD[k], ODD[k] + strlen(ODD[k]) + 1); int cnt = 0;
    ctx.watchdog_s = 20; alarm(20);
    { static const int E[] = {EINTR, 0, EAGAIN, ENOMEM, EINTR, EIO}; errno = E[(k + entry + internal) % 6]; }   // errno is the caller's and arbitrary on entry
    int rc = entry == 0 ? asm_assemble_file(a, p.data()) : entry == 1 ? assemble_file(a, p.data()) : asm_assemble_file_counting_chunks(a, p.data(), 16, &cnt);
    ctx.watchdog_s = 300; alarm(300);
    asm_destroy_instance(a);
    if (ctx.want_sample()) ctx.put_sample(std::string(ODD[k]) + " through a file entry point -> returned " + std::to_string(rc));
    if (rc != 0 && rc != 1) { hz::Failure f; f.caseid = id; f.text = ODD[k]; f.symptom = "bad-return"; f.detail = "returned " + std::to_string(rc); f.tags = {"mn:file", "form:odd", "sym:bad-return"}; ctx.fail(f); }
  }
}

// the longest encodings the library can be made to emit (an immediate wider than the operand is not rejected: 16, 17, 18 bytes), at every
// position in front of a chunk boundary and in front of the end of small caller buffers, plainly, with chunk fitting and counting
static void longest_encodings(hz::Ctx &ctx) {
  static const char *LONG[] = {"imul r9d, word [eax+ebx*8+0x11223344], 0x1122334455667788", "add qword [eax+ebx*8+0x12345678], 0x1122334455667788", "mov qword [r8d+r9d*8+0x12345678], 0x55667788", "test qword [r12d+r13d*2+0x7fffffff], 0x1122334455667788",
    "imul r15, qword [r8d+r9d*4+0x11223344], 0x55667788", "vperm2i128 ymm9, ymm10, [r11d+r12d*8+0x11223344], 0x12", "shld word [r8d+r9d*2+0x12345678], r10w, 0x1122", "mov r15, 0x1122334455667788", "cmp word [eax+r9d*8-0x12345678], 0x1122334455"};
  for (int li = 0; li < 9; li++) for (int chunk : {0, 16, 17, 18, 19, 20, 24, 32, 40}) for (int left = 1; left <= 21; left++) for (int mode = 0; mode < 3; mode++) for (int bufk = 0; bufk < 2; bufk++) {
    if (chunk == 0 && mode == 1) continue;
    if (!ctx.take()) continue;
    FzCase c; c.text = std::string(LONG[li]) + "\n" + LONG[(li + left) % 9] + "\n"; c.combo = (li + left + chunk) % 12; c.mode = mode; c.chunk = chunk ? chunk : 16; c.internal = false; c.flags = (left % 5 == 0 ? 1 : 0) | (left % 3 == 0 ? 2 : 0);
    if (bufk == 0) { c.n = 300; c.start = (chunk ? chunk : 32) * 3 - left; } else { c.n = 64 + left; c.start = c.n - 20 - left % 4; if (c.start < 0) c.start = 0; }
    std::string id = serfz(c); if (!ctx.begin(id, hz::jesc(c.text).substr(0, 200))) continue;
    ctx.cls("part:longest-encodings"); ctx.nontrivial(id);
    std::string why; bool ok = run_fz(c, why);
    if (ctx.want_sample()) ctx.put_sample("\"" + std::string(LONG[li]) + "\" with " + std::to_string(left) + " bytes left in a chunk of " + std::to_string(chunk) + " -> " + (ok ? "returned normally" : why));
    if (!ok) { hz::Failure f; f.caseid = id; f.text = hz::jesc(c.text).substr(0, 300); f.symptom = "bad-return"; f.detail = why; f.tags = {"mn:text", "form:longest", "sym:bad-return"}; ctx.fail(f); }
  }
}

void prop_c09_grammar(hz::Ctx &ctx) {
  odd_files(ctx);
  longest_encodings(ctx);
  static Pool P = build_pool(ctx.seed, 1);
  hz::Rng r(ctx.seed * 31 + 9);
  long long total = ctx.thorough() ? 20000000 : 2000000;
  static const int NS[] = {0, 19, 20, 21, 64, 300, 300, 5000};
  for (long long i = 0; i < total; i++) {
    std::string what; const std::string &base = P.lines[r.below(P.lines.size())];
    FzCase c; if (r.below(5) == 0) { c.text = base; if (r.coin()) c.text += "\n" + P.lines[r.below(P.lines.size())]; what = "unmutated "; } else if (r.below(12) == 0) c.text = edge_line(r, what); else c.text = mutate(base, r, what); c.combo = (int)r.below(12); c.mode = (int)r.below(3); static const int CH[] = {0, 1, 2, 3, 8, 16, 17, 4096}; c.chunk = CH[r.below(8)]; c.internal = r.below(4) == 0; c.n = NS[r.below(8)];
    { int lim = c.internal ? 6000 : c.n; static const int BACK[] = {20, 21, 22, 23, 24, 25, 28, 32, 19, 0}; int bk = BACK[r.below(10)]; c.start = r.below(3) == 0 ? 0 : (lim >= bk ? lim - bk : 0); if (r.below(8) == 0) c.start = (int)r.below(lim + 1);
      // a library-managed buffer grows to wherever the offset is set: positions around the lengths it takes (6020 + 6000k, position + 20)
      if (c.internal && r.below(3) == 0) { static const int FAR[] = {6001, 6019, 6020, 6021, 12000, 12001, 12010, 12015, 12019, 12020, 12021, 18005, 18019, 24017, 8192, 12288, 100000}; c.start = FAR[r.below(17)] + (r.below(4) == 0 ? (int)r.below(20) : 0); } }
    c.flags = (r.below(6) == 0 ? 1 : 0) | (r.below(5) == 0 ? 2 : 0) | (r.below(7) == 0 ? 4 : 0);
    if (!ctx.take()) continue;
    std::string id = serfz(c); if (!ctx.begin(id, hz::jesc(c.text).substr(0, 300))) continue;
    ctx.cls("part:grammar-mutation"); { size_t p = 0; while (p < what.size()) { size_t e = what.find(' ', p); ctx.cls("mut:" + what.substr(p, e - p)); p = e + 1; } }
    if (c.text.size() >= 100) ctx.cls("len:>=100"); if (c.internal && c.start > 6000) ctx.cls("offset:beyond-the-initial-length"); if (c.flags & 1) ctx.cls("debug-listing"); if (c.flags & 2) ctx.cls("second-call"); if (c.flags & 4) ctx.cls("deprecated-alias");
    // non-trivial: reaches the operand tokenizer (a mnemonic-like token followed by a blank and more text)
    size_t sp = c.text.find(' '); if (sp != std::string::npos && sp > 0 && sp + 1 < c.text.size()) ctx.nontrivial(c.text);
    std::string why; bool ok = run_fz(c, why);
    if (ctx.want_sample()) ctx.put_sample("\"" + hz::jesc(c.text).substr(0, 160) + "\" (" + what + ") -> " + (ok ? "returned normally" : why));
    if (!ok) { hz::Failure f; f.caseid = id; f.text = hz::jesc(c.text).substr(0, 300); f.symptom = "bad-return"; f.detail = why; f.tags = {"mn:text", "form:grammar", "sym:bad-return"}; ctx.fail(f); }
  }
}

int replay_fz(const std::string &caseid) {
  if (caseid.compare(0, 3, "FO|") == 0) { auto f = split(caseid, '|'); if (f.size() != 4) return 2; static const char *ODD[] = {"/sys/devices/system/cpu/online", "/proc/self/cmdline", "/dev/null", "/proc/self/status", "/sys/kernel/mm/transparent_hugepage/enabled", "/proc/self/maps", "/", "/proc/self/fd", "/dev/zero", "/proc/self/environ"};
    int k = atoi(f[1].c_str()) % 10, entry = atoi(f[2].c_str()), internal = atoi(f[3].c_str()); std::vector<uint8_t> b(4096, 0x5a); assemblyline_t a = asm_create_instance(internal ? nullptr : b.data(), 4096); std::vector<char> p(ODD[k], ODD[k] + strlen(ODD[k]) + 1); int cnt = 0;
    { static const int E[] = {EINTR, 0, EAGAIN, ENOMEM, EINTR, EIO}; errno = E[(k + entry + internal) % 6]; }
    alarm(20); int rc = entry == 0 ? asm_assemble_file(a, p.data()) : entry == 1 ? assemble_file(a, p.data()) : asm_assemble_file_counting_chunks(a, p.data(), 16, &cnt); alarm(0); asm_destroy_instance(a);
    printf("%s: returned %d\n", ODD[k], rc); return (rc == 0 || rc == 1) ? 0 : 1; }
  auto f = split(caseid, '|'); if (f.size() < 7 || f[0] != "FZ") return 2;
  FzCase c; c.combo = atoi(f[1].c_str()); c.mode = atoi(f[2].c_str()); c.chunk = atoi(f[3].c_str()); c.internal = f[4] == "1"; c.n = atoi(f[5].c_str()); c.text = fromhex(f[6]); if (f.size() > 7) c.start = atoi(f[7].c_str()); if (f.size() > 8) c.flags = atoi(f[8].c_str());
  std::string why; bool ok = run_fz(c, why); printf("text: %s\n", hz::jesc(c.text).c_str()); if (ok) { printf("OK\n"); return 0; } printf("FAIL %s\n", why.c_str()); return 1;
}
