#define _GNU_SOURCE
#include "wrap.h"
#include <errno.h>
#include <fcntl.h>
#include <stdarg.h>
#include <stdio.h>
#include <stdlib.h>
#include <string.h>
#include <sys/mman.h>
#include <sys/stat.h>
#include <unistd.h>

struct alw_ctl alw;
static const char *NAMES[] = {"malloc", "mmap", "mremap", "munmap", "open", "fstat", "read", "fopen", "fwrite", "fclose", "write", "calloc", "realloc", "fflush", "fdopen", "ftruncate"};
const char *alw_kind_name(int k) { return k >= 0 && k < ALW_NKINDS ? NAMES[k] : "?"; }
void alw_reset(void) { long bu = alw.bad_unmap; int g = alw.guard_files, c = alw.guard_code, f = alw.force_move, fo = alw.fill_on, sr = alw.short_read, tc = alw.tight_code; unsigned char fb = alw.fill; long s = alw.salt; memset(&alw, 0, sizeof alw); alw.guard_files = g; alw.guard_code = c; alw.force_move = f; alw.salt = s; alw.fill_on = fo; alw.fill = fb; alw.short_read = sr; alw.tight_code = tc; alw.bad_unmap = bu; /* reset by the harness only */ }
/* realistic errno values, rotating with the index of the failed call */
static int pick(const int *v, int n) { return v[(unsigned long)(alw.counter + alw.fail_at + alw.salt) % (unsigned long)n]; }
static const int E_MEM[] = {ENOMEM, EAGAIN}, E_OPEN[] = {EMFILE, ENFILE, EACCES, EINTR, ENOENT}, E_IO[] = {EIO, EINTR, ENOSPC, EDQUOT};

/* returns 1 if this call must fail */
static int hit(int kind) {
  if (alw.fail_next_kind == kind + 1) { alw.fail_next_kind = 0; return 1; }
  if (!alw.armed) return 0;
  long idx = ++alw.counter;
  if (alw.log_n < (int)sizeof alw.log) alw.log[alw.log_n++] = (unsigned char)kind;
  if (idx == alw.fail_at || idx == alw.fail_at2) { alw.failed_index = idx; alw.failed_kind = kind; return 1; }
  return 0;
}

void *alw_malloc(size_t n) { if (hit(ALW_MALLOC)) { errno = ENOMEM; return NULL; } void *p = malloc(n); if (p && alw.fill_on) memset(p, alw.fill, n); return p; }

/* sizes of the regions handed out for library-managed code buffers (tight or guarded), to judge later unmap requests */
static struct { void *p; size_t len; } regs[256]; static int nregs;
static void reg_add(void *p, size_t len) { for (int i = 0; i < nregs; i++) if (regs[i].p == p) { regs[i].len = len; return; } if (nregs < 256) { regs[nregs].p = p; regs[nregs].len = len; nregs++; } }
static void reg_check_del(void *p, size_t len) { for (int i = 0; i < nregs; i++) if (regs[i].p == p) { size_t pg = 4096, off = (unsigned long)p & (pg - 1), span = (off + regs[i].len + pg - 1) / pg * pg; if (off + len > span) alw.bad_unmap++; regs[i] = regs[--nregs]; return; } }
/* a read-write-exec region of len bytes whose last byte is the last byte of a page, followed by an inaccessible page */
static void *tight_map(size_t len, int prot) {
  size_t pg = 4096, span = (len + pg - 1) / pg * pg;
  unsigned char *res = mmap(NULL, span + pg, PROT_NONE, MAP_PRIVATE | MAP_ANONYMOUS, -1, 0);
  if (res == MAP_FAILED) return MAP_FAILED;
  if (mprotect(res, span, prot) != 0) { munmap(res, span + pg); return MAP_FAILED; }
  reg_add(res + (span - len), len);
  return res + (span - len);
}
static int tight_is(const void *p) { return ((unsigned long)p & 4095) != 0; /* only tight_map hands out unaligned regions */ }
static void tight_unmap(void *p, size_t len) { size_t pg = 4096; unsigned long a = (unsigned long)p, base = a & ~(pg - 1); size_t span = ((a - base) + len + pg - 1) / pg * pg; munmap((void *)base, span + pg); }

void *alw_mmap(void *addr, size_t len, int prot, int flags, int fd, off_t off) {
  if (hit(ALW_MMAP)) { errno = ENOMEM; return MAP_FAILED; }
  if (alw.guard_files && addr == NULL && len > 0 && len < (1u << 26) && (fd >= 0 || (prot & PROT_EXEC) == 0)) {
    /* file contents (mapped directly, or an anonymous mapping the library reads the file into):
     * put the END of the mapping's last page directly in front of an inaccessible page, so that reading
     * past the mapping faults deterministically instead of depending on the neighbouring mapping */
    size_t pg = 4096, span = (len + pg - 1) / pg * pg;
    unsigned char *res = mmap(NULL, span + pg, PROT_NONE, MAP_PRIVATE | MAP_ANONYMOUS, -1, 0);
    if (res == MAP_FAILED) return MAP_FAILED;
    void *p = mmap(res, len, prot, flags | MAP_FIXED, fd, off);
    if (p == MAP_FAILED) { munmap(res, span + pg); return MAP_FAILED; }
    return p; /* the trailing guard page stays reserved (leaked on munmap; harmless in short-lived workers) */
  }
  if (alw.tight_code && addr == NULL && len > 0 && len < (1u << 28) && fd < 0 && (prot & PROT_EXEC)) return tight_map(len, prot);
  if (alw.guard_code && addr == NULL && len > 0 && len < (1u << 26) && fd < 0 && (prot & PROT_EXEC)) {
    /* the library-managed code buffer: reserve inaccessible pages behind it, so that a write past the mapped length
     * faults (a later, real mremap moves the buffer away from the reservation, which is fine) */
    size_t pg = 4096, span = (len + pg - 1) / pg * pg, guard = 64 * pg;
    unsigned char *res = mmap(NULL, span + guard, PROT_NONE, MAP_PRIVATE | MAP_ANONYMOUS, -1, 0);
    if (res == MAP_FAILED) return MAP_FAILED;
    void *p = mmap(res, len, prot, flags | MAP_FIXED, fd, off);
    if (p == MAP_FAILED) { munmap(res, span + guard); return MAP_FAILED; }
    return p;
  }
  return mmap(addr, len, prot, flags, fd, off);
}
void *alw_mremap(void *old, size_t oldlen, size_t newlen, int flags, ...) {
  if (hit(ALW_MREMAP)) { errno = pick(E_MEM, 2); return MAP_FAILED; }
  if (tight_is(old) || (alw.tight_code && (flags & MREMAP_MAYMOVE))) { /* grow into a fresh end-aligned region; the old one disappears */
    if (!(flags & MREMAP_MAYMOVE)) { errno = ENOMEM; return MAP_FAILED; }
    void *fresh = tight_map(newlen, PROT_READ | PROT_WRITE | PROT_EXEC); if (fresh == MAP_FAILED) return MAP_FAILED;
    memcpy(fresh, old, oldlen < newlen ? oldlen : newlen);
    reg_check_del(old, oldlen);
    if (tight_is(old)) tight_unmap(old, oldlen); else munmap(old, oldlen);
    return fresh;
  }
  if (alw.force_move && (flags & MREMAP_MAYMOVE)) {
    /* relocate for sure: reserve a fresh range and move the mapping there; the old range is left unmapped */
    void *fresh = mmap(NULL, newlen, PROT_NONE, MAP_PRIVATE | MAP_ANONYMOUS, -1, 0);
    if (fresh != MAP_FAILED) { void *p = mremap(old, oldlen, newlen, MREMAP_MAYMOVE | MREMAP_FIXED, fresh); if (p != MAP_FAILED) return p; munmap(fresh, newlen); }
  }
  return mremap(old, oldlen, newlen, flags);
}
int alw_munmap(void *addr, size_t len) { if (hit(ALW_MUNMAP)) { errno = EINVAL; return -1; } reg_check_del(addr, len); if (tight_is(addr)) { tight_unmap(addr, len); return 0; } return munmap(addr, len); }
int alw_open(const char *path, int flags, ...) {
  mode_t mode = 0; if (flags & O_CREAT) { va_list ap; va_start(ap, flags); mode = va_arg(ap, mode_t); va_end(ap); }
  else { va_list ap; va_start(ap, flags); mode = va_arg(ap, mode_t); va_end(ap); }
  if (hit(ALW_OPEN)) { errno = pick(E_OPEN, 5); return -1; }
  return open(path, flags, mode);
}
int alw_fstat(int fd, struct stat *st) { if (hit(ALW_FSTAT)) { errno = EIO; return -1; } return fstat(fd, st); }
ssize_t alw_read(int fd, void *buf, size_t n) { if (hit(ALW_READ)) { errno = pick(E_IO, 2); return -1; } if (alw.short_read > 0 && n > (size_t)alw.short_read) n = (size_t)alw.short_read; return read(fd, buf, n); }
FILE *alw_fopen(const char *path, const char *mode) { if (hit(ALW_FOPEN)) { errno = EACCES; return NULL; } return fopen(path, mode); }
size_t alw_fwrite(const void *p, size_t sz, size_t n, FILE *f) {
  if (f == stderr || f == stdout) return fwrite(p, sz, n, f);   /* diagnostics, not a resource the property is about */
  if (hit(ALW_FWRITE)) { errno = pick(E_IO, 4); size_t half = n / 2; if (half) fwrite(p, sz, half, f); return half; } /* short write */
  return fwrite(p, sz, n, f);
}
int alw_fclose(FILE *f) { if (hit(ALW_FCLOSE)) { int e = pick(E_IO, 4); fclose(f); errno = e; return EOF; } /* late ENOSPC: data did not reach the disk */ return fclose(f); }

/* superset: calls the pinned library does not make today, so that a refactored reader/writer stays covered */
ssize_t alw_write(int fd, const void *p, size_t n) { if (fd == 1 || fd == 2) return write(fd, p, n); if (hit(ALW_WRITE)) { errno = ENOSPC; size_t half = n / 2; if (half) return write(fd, p, half); return -1; } return write(fd, p, n); }
ssize_t alw_pwrite(int fd, const void *p, size_t n, off_t o) { if (hit(ALW_WRITE)) { errno = ENOSPC; return -1; } return pwrite(fd, p, n, o); }
ssize_t alw_pread(int fd, void *p, size_t n, off_t o) { if (hit(ALW_READ)) { errno = EIO; return -1; } return pread(fd, p, n, o); }
void *alw_calloc(size_t a, size_t b) { if (hit(ALW_CALLOC)) { errno = ENOMEM; return NULL; } return calloc(a, b); }
void *alw_realloc(void *p, size_t n) { if (hit(ALW_REALLOC)) { errno = ENOMEM; return NULL; } return realloc(p, n); }
int alw_fflush(FILE *f) { if (f == stderr || f == stdout || f == NULL) return fflush(f); if (hit(ALW_FFLUSH)) { errno = ENOSPC; return EOF; } return fflush(f); }
FILE *alw_fdopen(int fd, const char *m) { if (hit(ALW_FDOPEN)) { errno = ENOMEM; return NULL; } return fdopen(fd, m); }
int alw_ftruncate(int fd, off_t n) { if (hit(ALW_FTRUNCATE)) { errno = EIO; return -1; } return ftruncate(fd, n); }
int alw_openat(int d, const char *path, int flags, ...) { mode_t mode = 0; va_list ap; va_start(ap, flags); mode = va_arg(ap, mode_t); va_end(ap); if (hit(ALW_OPEN)) { errno = EMFILE; return -1; } return openat(d, path, flags, mode); }
int alw_creat(const char *path, mode_t mode) { if (hit(ALW_OPEN)) { errno = EACCES; return -1; } return creat(path, mode); }
int alw_stat(const char *path, struct stat *st) { if (hit(ALW_FSTAT)) { errno = EIO; return -1; } return stat(path, st); }
size_t alw_fread(void *p, size_t sz, size_t n, FILE *f) { if (hit(ALW_READ)) { errno = EIO; return 0; } return fread(p, sz, n, f); }
