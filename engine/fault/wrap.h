/* Interposers for the libc / syscall wrappers the library uses.  The library objects are rewritten with
 * objcopy --redefine-sym X=alw_X (driver/build.py, flavour "asanfi"), so only calls made BY THE LIBRARY go
 * through these functions; the harness, rapidcheck and the sanitizer runtimes are not affected. */
#ifndef ALW_WRAP_H
#define ALW_WRAP_H
#ifdef __cplusplus
extern "C" {
#endif
enum alw_kind { ALW_MALLOC, ALW_MMAP, ALW_MREMAP, ALW_MUNMAP, ALW_OPEN, ALW_FSTAT, ALW_READ, ALW_FOPEN, ALW_FWRITE, ALW_FCLOSE, ALW_WRITE, ALW_CALLOC, ALW_REALLOC, ALW_FFLUSH, ALW_FDOPEN, ALW_FTRUNCATE, ALW_NKINDS };
struct alw_ctl {
  int armed;          /* count and possibly fail intercepted calls */
  long counter;       /* intercepted calls since arming */
  long fail_at;       /* 1-based index of the call to fail, 0 = none */
  long fail_at2;      /* optional second failing call */
  int log_n; unsigned char log[4096]; /* kinds of the intercepted calls, in order */
  long salt;          /* varies the errno chosen for a failed call */
  int force_move;     /* every successful mremap relocates the mapping (the old range becomes inaccessible) */
  int guard_code;     /* reserve PROT_NONE pages behind the library-managed (PROT_EXEC) code buffer */
  int guard_files;    /* place the bytes read from a file / mapped from a file directly in front of a PROT_NONE page */
  long failed_index; int failed_kind; /* what was failed */
  int fail_next_kind; /* one shot, also when not armed: the next intercepted call of kind (this - 1) is refused */
  int short_read;     /* > 0: every read() delivers at most this many bytes (what pipes, network file systems and signals do) */
  int tight_code;     /* the library-managed code buffer ENDS directly in front of an inaccessible page (its start is then not page aligned), on creation and after every growth: one byte written past the buffer's length faults */
  long bad_unmap;     /* munmap calls (since the last reset by the harness) whose length reaches beyond the page-rounded length of the region the layer handed out at that address */
  int fill_on; unsigned char fill;    /* every block the library gets from malloc is filled with this byte first (heap memory has no defined content) */
};
extern struct alw_ctl alw;
const char *alw_kind_name(int k);
void alw_reset(void);
#ifdef __cplusplus
}
#endif
#endif
