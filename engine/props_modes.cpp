// C11: assembly modes change only the documented forms, in the documented way.
// C16: letter case, spacing, comments, labels and number base do not change the code.
#include "gen.hpp"
#include "props.hpp"
#include "cli.hpp"
#include <cctype>

using namespace gen;

// ------------------------------------------------------------------ shared corpus sampler
// a seeded sample of the C01-C05 corpora (structured intents)
static void corpus(hz::Ctx &ctx, hz::Rng &rng, size_t per_form, const std::function<void(const Intent &)> &cb) {
  ShapeOpts so; so.all_regs = false; so.disp_level = 1; so.spellings = true;
  std::vector<WMem> sh = shape_list(so, ctx.seed + 11);
  auto refs = form_refs([](const Form &) { return true; });
  for (auto &r : refs) {
    for (size_t rep = 0; rep < per_form; rep++) {
      Intent it = base_intent(r); bool bad = false;
      for (auto &s : r.slots) {
        if (s == "REL") { static const int64_t D[] = {0, 1, 5, 0x7f, 0x80, 0x100, -1, -5, -0x80, -0x81, 0x12345, -0x12345, 0x7fffffff, -0x80000000LL}; int64_t d = D[rng.below(14)]; if (r.mn == "jrcxz") d = D[rng.below(9)] % 128; it.ops.push_back(wrel(d, rng.coin())); }
        else if (is_mem_slot(s)) it.ops.push_back(mem_for_slot(sh[rng.below(sh.size())], s, r.size, r.f->kw, rng.coin()));
        else if (is_imm_slot(s)) {
          char pol = imm_policy(s); int space = imm_space(s, r.size); int w = s == "I8" ? 8 : (s == "IPUSH" ? 64 : r.size);
          auto sps = imm_spellings(w, pol, rng, 2, true); if (sps.empty()) { bad = true; break; }
          auto sp = sps[rng.below(sps.size())]; if (sp.hex && !sp.neg && rng.below(6) == 0) sp.pad = 16;   // a 16-digit literal means something only for mov r64, imm
          it.ops.push_back(wimm(sp.v, space, sp.hex, sp.neg, sp.pad));
        } else { auto c = reg_candidates(s, r.size); if (c.empty()) { bad = true; break; } it.ops.push_back(c[rng.below(c.size())]); }
      }
      if (bad || !encodable(it)) continue;
      if (it.form == "REL" && it.mn != "call" && it.mn != "xbegin" && it.mn != "jrcxz" && rng.below(3) == 0) { int64_t d = (int64_t)it.ops[0].imm.v; it.brkw = (d >= 0 && d <= 127) ? 1 + (int)rng.below(2) : 2; }
      cb(it);
    }
  }
}

static bool is_mov_r64_imm(const Intent &it) { return it.mn == "mov" && it.ops.size() == 2 && it.ops[0].k == K_GPR && it.ops[0].width == 64 && it.ops[1].k == K_IMM; }
static bool sib_sensitive(const Intent &it) { for (auto &o : it.ops) if (o.k == K_MEM && (o.m.index == 4 || (o.m.base < 0 && o.m.index >= 0))) return true; return false; }

// ------------------------------------------------------------------ C11 (a): mov r64, imm rule
struct MV { bool ok = true; std::string symptom, detail; };
static MV check_mov_rule(const LineCase &c) {
  MV v; auto bad = [&](const std::string &s, const std::string &d) { v.ok = false; v.symptom = s; v.detail = d; return v; };
  al::Result res = al::assemble(text(c.it), c.combo);
  if (res.rc != 0) return bad("rejected", "EXIT_FAILURE");
  std::string hexs = x86::hex(res.bytes.data(), res.bytes.size());
  x86::Insn g = x86::decode(res.bytes.data(), res.bytes.size());
  if (!g.ok || (size_t)g.len != res.bytes.size() || g.op != "mov" || g.ops.size() != 2 || g.ops[0].k != K_GPR || g.ops[1].k != K_IMM) return bad("not-a-mov", hexs + " -> " + x86::to_string(g));
  const WImm &im = c.it.ops[1].imm; uint64_t val = im.v;
  if (g.ops[0].reg != c.it.ops[0].reg) return bad("register number", hexs);
  int dw = g.ops[0].width; if (dw != 32 && dw != 64) return bad("register width", hexs);
  // value preserved: a 32-bit destination zero-extends
  uint64_t got = dw == 32 ? (g.ops[1].imm & 0xffffffffULL) : g.ops[1].imm;
  if (got != val) return bad("immediate value", hexs + " -> " + x86::to_string(g));
  bool narrowable = val <= 0xffffffffULL;
  int mode = combo_opts(c.combo).mov;
  // "written with all 16 digits": sixteen hexadecimal digits behind the 0x, with or without a sign in front
  uint64_t mag = im.neg ? (uint64_t)(0 - im.v) : im.v; bool full16 = im.hex && std::max(im.pad, ndigits(mag, true)) == 16;
  bool want_narrow = mode == 1 ? narrowable : mode == 0 ? false : (narrowable && !full16);
  if (want_narrow && dw != 32) return bad("not-narrowed", hexs + " -> " + x86::to_string(g) + " ; the documented rule narrows to the 32-bit destination");
  if (!want_narrow && dw != 64) return bad("narrowed", hexs + " -> " + x86::to_string(g) + " ; the documented rule keeps the 64-bit destination");
  return v;
}

// ------------------------------------------------------------------ C11 (b): SIB options
static MV check_sib_rule(const LineCase &c) {
  MV v; auto bad = [&](const std::string &s, const std::string &d) { v.ok = false; v.symptom = s; v.detail = d; return v; };
  Verdict e = check_encoding(c);   // NASM: encoded address equals the written one; STRICT swap: documented exception inside
  if (!e.ok) return bad(e.symptom, e.detail);
  spec::Opts o = combo_opts(c.combo);
  for (size_t k = 0; k < c.it.ops.size(); k++) if (c.it.ops[k].k == K_MEM) {
    const WMem &w = c.it.ops[k].m; const x86::Mem *gm = nullptr;
    for (auto &go : e.got.ops) if (go.k == K_MEM) gm = &go.mem;
    if (!gm) return bad("operand kind", "no memory operand decoded");
    std::string hexs = x86::hex(e.res.bytes.data(), e.res.bytes.size());
    if (w.base < 0 && w.index >= 0 && o.nobase == 0) { // STRICT: literal no-base encoding
      if (!(gm->sib && gm->base == -1 && gm->index == w.index && gm->scale == w.scale && gm->dispbytes == 4))
        return bad("strict-nobase-not-literal", hexs + " -> " + x86::to_string(e.got) + " ; STRICT must keep no base, the written scale and a disp32");
    }
    if (w.index == 4 && o.swap == 0) { // STRICT: literal stack-pointer index (SIB.index=100)
      if (!(gm->sib && gm->index == -1 && gm->base == w.base)) return bad("strict-swap-not-literal", hexs + " -> " + x86::to_string(e.got));
    }
  }
  return v;
}

// ------------------------------------------------------------------ C11 (c): non-interference
static MV check_noninterference(const Intent &it) {
  MV v; std::string line = text(it);
  al::Result ref = al::assemble(line, DEFAULT_COMBO);
  for (int c = 0; c < 12; c++) {
    al::Result r = al::assemble(line, c);
    if (r.rc != ref.rc || r.bytes != ref.bytes) {
      v.ok = false; v.symptom = "mode-dependent";
      v.detail = "default options: rc=" + std::to_string(ref.rc) + " " + x86::hex(ref.bytes.data(), ref.bytes.size()) + " ; " + combo_name(c) + ": rc=" + std::to_string(r.rc) + " " + x86::hex(r.bytes.data(), r.bytes.size());
      return v;
    }
  }
  return v;
}

static void fail_mv(hz::Ctx &ctx, const LineCase &c, const std::string &id, const std::string &group, const MV &v) {
  hz::Failure f = make_failure(c, v.symptom, v.detail); f.caseid = id; f.tags.push_back("group:" + group); ctx.fail(f);
}

void prop_c11(hz::Ctx &ctx) {
  hz::Rng rng(ctx.seed ^ 0xc11);
  // (a) mov r64, imm: value set x spellings (incl. zero padding to every length 1..16) x 16 registers x 3 modes
  {
    auto sps = imm_spellings(64, 'M', rng, ctx.thorough() ? 2000 : 300, true);
    // zero padding to every length for positive hex literals
    std::vector<ImmSp> more;
    for (auto &s : sps) if (s.hex && !s.neg) for (int pad = 1; pad <= 16; pad++) { ImmSp p = s; p.pad = pad; char b[40]; snprintf(b, sizeof b, "%llx", (unsigned long long)s.v); if ((int)strlen(b) <= pad && (pad == 15 || pad == 16 || pad == 8 || pad == 9 || rng.below(4) == 0)) more.push_back(p); }
    // decimal literals of 16 and more characters: only a hexadecimal one suppresses narrowing
    for (auto &s : sps) if (!s.hex && s.pad == 0 && (s.v <= 0xffffffffULL || rng.below(4) == 0)) for (int pad : {15, 16, 17, 18, 19, 20, 24}) if (pad >= 17 && pad <= 18 ? true : rng.below(3) == 0) { ImmSp p = s; p.pad = pad; uint64_t mag = s.neg ? (uint64_t)(0 - s.v) : s.v; if (ndigits(mag, false) < pad) more.push_back(p); }
    // signed 16-digit literals whose value is small again (-0xffffffffffffffff is 1), and minus zero
    for (uint64_t v : {0ULL, 1ULL, 2ULL, 0x7fULL, 0x80ULL, 0xffffULL, 0x7fffffffULL, 0x80000000ULL, 0xffffffffULL, 0x100000000ULL}) { more.push_back({v, true, true, v == 0 ? 16 : 0}); if (v == 0) { more.push_back({v, true, true, 0}); more.push_back({v, true, false, 0}); more.push_back({v, true, true, 15}); } }
    for (auto &s : sps) if (s.hex && s.neg && s.pad == 0 && rng.below(3) == 0) { ImmSp p = s; p.pad = 16; more.push_back(p); p.pad = 15; more.push_back(p); }
    sps.insert(sps.end(), more.begin(), more.end());
    auto ref = form_refs([](const Form &f) { return std::string(f.pat) == "R,IMOV"; });
    FormRef r64; for (auto &r : ref) if (r.size == 64) r64 = r;
    for (size_t i = 0; i < sps.size(); i++) for (int mode = 0; mode < 3; mode++) {
      int nregs = ctx.thorough() ? 16 : 8;
      for (int k = 0; k < nregs; k++) {
        int reg = ctx.thorough() ? k : (int)((i * 7 + k * 5 + mode) % 16);
        LineCase c; c.it = base_intent(r64); c.it.ops = {wgpr(reg, 64), wimm(sps[i].v, 64, sps[i].hex, sps[i].neg, sps[i].pad)};
        c.combo = mode + 3 * (int)((i + k) & 3);
        if (!ctx.take()) continue;
        std::string id = "A|" + serialize(c);
        if (!ctx.begin(id, text(c.it))) continue;
        ctx.cls("group:mov-r64-imm"); ctx.cls(std::string("movmode:") + (mode == 0 ? "STRICT" : mode == 1 ? "NASM" : "SMART"));
        uint64_t mag16 = sps[i].neg ? (uint64_t)(0 - sps[i].v) : sps[i].v; bool full16 = sps[i].hex && std::max(sps[i].pad, ndigits(mag16, true)) == 16;
        if (sps[i].v <= 0xffffffffULL) ctx.cls("mov:narrowable"); if (full16) ctx.cls("mov:16-digit"); if (full16 && sps[i].neg) ctx.cls("mov:16-digit-signed"); if (!sps[i].hex) ctx.cls("mov:decimal"); if (!sps[i].hex && sps[i].pad >= 16) ctx.cls("mov:decimal-16-and-more-characters");
        if (sps[i].v <= 0xffffffffULL || full16) ctx.nontrivial(id);
        MV v = check_mov_rule(c);
        if (ctx.want_sample()) ctx.put_sample(text(c.it) + " [" + combo_name(c.combo) + "] -> " + (v.ok ? "as documented" : v.symptom));
        if (!v.ok) fail_mv(ctx, c, id, "mov-r64-imm", v);
        else if ((i + k + mode) % 5 == 0) run_fitted_line(ctx, c, true);   // the form chosen by the mode must survive the second encoding behind chunk-fitting padding
      }
    }
  }
  // (b) [base+rsp/esp] and [scale*index+/-disp] shapes under every memory-taking class x 4 SIB combinations
  {
    ShapeOpts so; so.disp_level = 1; so.spellings = false; so.all_regs = ctx.thorough();
    std::vector<WMem> all = shape_list(so, ctx.seed + 12), sh;
    for (auto &m : all) if (m.index == 4 || (m.base < 0 && m.index >= 0)) sh.push_back(m);
    auto refs = form_refs([](const Form &f) { return has_mem(f); });
    std::map<std::string, std::vector<FormRef>> groups;
    for (auto &r : refs) groups[std::string(r.f->cls) + "/" + r.f->pat].push_back(r);
    for (size_t si = 0; si < sh.size(); si++) for (auto &g : groups) {
      const FormRef &r = g.second[(si + ctx.seed) % g.second.size()];
      Intent it = base_intent(r); bool bad = false;
      for (auto &s : r.slots) {
        if (is_mem_slot(s)) it.ops.push_back(mem_for_slot(sh[si], s, r.size, r.f->kw, (si & 1) != 0));
        else if (is_imm_slot(s)) { static const int PADS[] = {0, 0, 1, 8, 15, 16, 16, 17}; it.ops.push_back(wimm(imm_policy(s) == 'U' ? 3 : 5, imm_space(s, r.size), true, false, PADS[(si + sh.size()) % 8 == 0 ? 5 : (si * 3) % 8])); }
        else { auto c = reg_candidates(s, r.size); if (c.empty()) { bad = true; break; } WOpd o = c[rng.below(c.size())]; if (o.high8) { o.high8 = false; o.reg &= 3; } it.ops.push_back(o); }
      }
      if (bad || !encodable(it)) continue;
      for (int sc = 0; sc < 4; sc++) {
        LineCase c{it, (int)((si + sc) % 3) + 3 * sc};
        if (!ctx.take()) continue;
        std::string id = "B|" + serialize(c);
        if (!ctx.begin(id, text(c.it))) continue;
        ctx.cls("group:sib-options"); ctx.cls(sh[si].index == 4 ? "sib:sp-index" : "sib:no-base"); ctx.nontrivial(id);
        MV v = check_sib_rule(c);
        if (ctx.want_sample()) ctx.put_sample(text(c.it) + " [" + combo_name(c.combo) + "] -> " + (v.ok ? "as documented" : v.symptom));
        if (!v.ok) fail_mv(ctx, c, id, "sib-options", v);
      }
    }
  }
  // (c) every other line: identical bytes under all twelve combinations
  corpus(ctx, rng, ctx.thorough() ? 120 : 24, [&](const Intent &it) {
    if (is_mov_r64_imm(it) || sib_sensitive(it)) return;
    if (!ctx.take()) return;
    LineCase c{it, DEFAULT_COMBO};
    std::string id = "N|" + serialize(c);
    if (!ctx.begin(id, text(it))) return;
    ctx.cls("group:non-interference"); ctx.cls("cls:" + it.cls);
    bool nt = false; for (auto &o : it.ops) if (o.k == K_IMM || o.k == K_MEM || o.k == K_REL) nt = true; if (nt) ctx.nontrivial(id);
    MV v = check_noninterference(it);
    if (ctx.want_sample()) ctx.put_sample(text(it) + " -> " + (v.ok ? "identical under all 12 option combinations" : v.detail));
    if (!v.ok) { fail_mv(ctx, c, id, "non-interference", v); return; }
    // the same line with an immediate the mov-immediate rules talk about (0x80000000..0xffffffff, beyond 32 bits, 16 written digits): whatever the
    // library makes of it - it may well refuse it - is the same under every combination
    for (size_t k = 0; k < it.ops.size(); k++) if (it.ops[k].k == K_IMM) {
      static const uint64_t W[] = {0x80000000ULL, 0xffffffffULL, 0xfffffffeULL, 0x100000000ULL, 0x7fffffffffffffffULL, 0xffffffffffffffffULL, 0xffffffff80000000ULL, 5ULL, 0x7fffffffULL};
      uint64_t h = hz::fnv(id); Intent w = it; w.ops[k].imm.v = W[h % 9]; w.ops[k].imm.neg = false; w.ops[k].imm.space = 64; w.ops[k].imm.hex = (h >> 4) % 3 != 0; w.ops[k].imm.pad = (h >> 6) % 3 == 0 ? 16 : (h >> 6) % 3 == 1 ? 0 : 9;
      LineCase cw{w, DEFAULT_COMBO}; std::string idw = "N|" + serialize(cw); if (!ctx.begin(idw, text(w))) return;
      ctx.cls("group:non-interference-wide-immediate"); ctx.nontrivial(idw);
      MV vw = check_noninterference(w);
      if (!vw.ok) fail_mv(ctx, cw, idw, "non-interference", vw);
      break;
    }
  });
}

// ------------------------------------------------------------------ C16: spelling
struct Style { int big_where = 0 /*0 none 1 indentation 2 after a comma 3 inside brackets 4 trailing 5 before the first operand*/, big_n = 0; bool big_tab = false; uint64_t seed = 0; bool upper_mn = false, upper_reg = false, upper_kw = false, upper_x = false, upper_hex = false; int sp_comma_l = 0, sp_comma_r = 1, sp_in = 0, sp_op = 0, lead = 0, trail = 0; bool lead_tab = false; std::string comment; int radix = 0 /*0 keep 1 force dec 2 force hex 3 hex with leading zeros*/; int nrewrites = 0; };

static std::string mixcase(const std::string &s, bool upper, hz::Rng &rng, bool mixed) {
  std::string o = s; for (auto &ch : o) if (upper && (!mixed || rng.coin())) ch = (char)toupper((unsigned char)ch); return o;
}
static std::string sp(int n) { return std::string(n, ' '); }
static std::string num_styled(uint64_t v, bool neg, bool hex, int pad, const Style &st, bool allow_radix, hz::Rng &rng, bool is_disp = false) {
  if (is_disp && allow_radix && st.radix == 3 && rng.below(3) == 0) { std::string s = numtext(v, neg, true, 16 + (int)rng.below(6)); for (auto &ch : s) { if (ch == 'x' && st.upper_x) ch = 'X'; else if (st.upper_hex && ch >= 'a' && ch <= 'f') ch = (char)toupper(ch); } return s; }   // a displacement has no digit-count rule: 16..21 hex digits
  if (allow_radix && st.radix == 4) { std::string d = numtext(v, false, false, 0); if (neg) d = numtext(v, true, false, 0).substr(1); return std::string(neg ? "-" : "") + std::string(1 + rng.below(3), '0') + d; }
  if (allow_radix && st.radix) { if (st.radix == 1) { hex = false; pad = 0; } else { hex = true; pad = st.radix == 3 ? pad + 1 + (int)rng.below(3) : pad; if (st.radix == 3 && pad < 2) pad = 2 + (int)rng.below(4); } }
  // a zero-padded literal must not reach 16 digits by accident (that would be a different SMART-mode request)
  if (hex && pad > 15) pad = pad == 16 && !allow_radix ? 16 : 15;
  std::string s = numtext(v, neg, hex, pad);
  if (hex) { for (auto &ch : s) { if (ch == 'x' && st.upper_x) ch = 'X'; else if (st.upper_hex && ch >= 'a' && ch <= 'f') ch = (char)toupper(ch); } }
  return s;
}
static std::string styled(const Intent &it, const Style &st, bool allow_radix) {
  hz::Rng rng(st.seed);
  bool mixed = (st.seed & 4) != 0;
  auto big = [&](int where) { return st.big_where == where ? std::string(st.big_n, st.big_tab && where != 5 ? '\t' : ' ') : std::string(); };
  std::string s = big(1) + (st.lead_tab ? std::string(st.lead, '\t') : sp(st.lead)) + mixcase(it.mn, st.upper_mn, rng, mixed);
  for (size_t k = 0; k < it.ops.size(); k++) {
    const WOpd &o = it.ops[k];
    s += k ? sp(st.sp_comma_l) + "," + sp(st.sp_comma_r) + (k == 1 ? big(2) : std::string()) : " " + sp(st.sp_op) + big(5);
    if (k == 0 && o.k == K_REL && it.brkw) s += mixcase(it.brkw == 1 ? "short" : "long", st.upper_kw, rng, mixed) + " " + sp(st.sp_op);
    if (k == 0 && it.far) s += mixcase("far", st.upper_kw, rng, mixed) + " " + sp(st.sp_op);
    switch (o.k) {
      case K_MEM: {
        const WMem &m = o.m;
        if (m.kw) s += mixcase(m.kw == 8 ? "byte" : m.kw == 16 ? "word" : m.kw == 32 ? "dword" : "qword", st.upper_kw, rng, mixed) + " " + sp(st.sp_op);
        s += "[" + sp(st.sp_in) + big(3); bool any = false;
        if (m.base >= 0) { s += mixcase(regtext(wgpr(m.base, m.asize)), st.upper_reg, rng, mixed); any = true; }
        if (m.index >= 0) {
          if (any) s += sp(st.sp_in) + "+" + sp(st.sp_in);
          std::string r = mixcase(regtext(wgpr(m.index, m.asize)), st.upper_reg, rng, mixed);
          if (m.scale != 1 || m.scale_written) { if (m.scale_first) s += std::to_string(m.scale) + sp(st.sp_in) + "*" + sp(st.sp_in) + r; else s += r + sp(st.sp_in) + "*" + sp(st.sp_in) + std::to_string(m.scale); } else s += r;
          any = true;
        }
        if (m.has_disp || !any) { bool neg = m.disp < 0; if (any) s += sp(st.sp_in) + (neg ? "-" : "+") + sp(st.sp_in); else if (neg) s += "-"; s += num_styled((uint64_t)(neg ? -m.disp : m.disp), false, m.disp_hex, m.disp_pad, st, true, rng, true); }
        s += sp(st.sp_in) + "]"; break; }
      case K_IMM: s += num_styled(o.imm.v, o.imm.neg, o.imm.hex, o.imm.pad, st, allow_radix, rng); break;
      case K_REL: s += num_styled(o.imm.v, o.imm.neg, o.imm.hex, o.imm.pad, st, allow_radix, rng); break;
      default: s += mixcase(regtext(o), st.upper_reg, rng, mixed);
    }
  }
  s += sp(st.trail) + big(4) + st.comment;
  return s;
}
static Style random_style(hz::Rng &rng, bool allow_radix) {
  Style st; st.seed = rng.next(); int n = 0;
  auto flip = [&](bool &b, int one_in) { b = rng.below(one_in) == 0; if (b) n++; };
  flip(st.upper_mn, 3); flip(st.upper_reg, 3); flip(st.upper_kw, 3); flip(st.upper_x, 4); flip(st.upper_hex, 3);
  if (rng.below(2)) { st.sp_comma_l = (int)rng.below(4); st.sp_comma_r = (int)rng.below(4); n++; }
  if (rng.below(3) == 0) { st.sp_in = (int)rng.below(4); if (st.sp_in) n++; }
  if (rng.below(3) == 0) { st.sp_op = (int)rng.below(3); if (st.sp_op) n++; }
  if (rng.below(3) == 0) { st.lead = 1 + (int)rng.below(6); st.lead_tab = rng.coin(); n++; }
  if (rng.below(4) == 0) { st.trail = 1 + (int)rng.below(3); n++; }
  if (rng.below(3) == 0) { static const char *C[] = {";", "; comment", ";mov rax, rbx", " ; x:y, [z]", ";;; 100% \"quoted\" 'text' \\ | ~", "; section global", ";\t tab", "; see c:\\asm\\", ";\\", "; gr\xc3\xb6\xc3\x9f" "er \xe2\x86\x92"}; st.comment = C[rng.below(10)]; n++; }
  if (allow_radix && rng.below(2)) { st.radix = 1 + (int)rng.below(4); n += 2; }
  // occasionally a very long run of blanks (the property does not bound the amount of blanks)
  if (rng.below(8) == 0) { st.big_where = 1 + (int)rng.below(5); st.big_n = 40 + (int)rng.below(260); st.big_tab = rng.coin(); n += 2; }
  st.nrewrites = n; return st;
}

struct SpV { bool ok = true; std::string symptom, detail, canon, variant; };
static SpV check_spelling(const Intent &it, int combo, uint64_t styleseed) {
  SpV v; hz::Rng rng(styleseed);
  bool allow_radix = !(is_mov_r64_imm(it) && combo_opts(combo).mov == 2);
  Style st = random_style(rng, allow_radix);
  v.canon = text(it); v.variant = styled(it, st, allow_radix);
  al::Result a = al::assemble(v.canon, combo), b = al::assemble(v.variant, combo);
  if (a.rc != b.rc || a.bytes != b.bytes) { v.ok = false; v.symptom = a.rc != b.rc ? "return-code" : "bytes";
    v.detail = "canonical \"" + v.canon + "\": rc=" + std::to_string(a.rc) + " " + x86::hex(a.bytes.data(), a.bytes.size()) + " ; variant \"" + v.variant + "\": rc=" + std::to_string(b.rc) + " " + x86::hex(b.bytes.data(), b.bytes.size()); }
  return v;
}

// programs with blank / comment / label / directive lines inserted at every position, LF vs CRLF
static SpV check_program_noise(const std::vector<std::string> &lines, int combo, uint64_t seed, std::string *prog_out) {
  SpV v; hz::Rng rng(seed);
  static const char *NOISE[] = {"", "   ", "; a comment", "label:", "  loop_1:  ; with comment", "section .text", "global _start", "%define X 5", "SECTION .data", "\t; indented comment", "GLOBAL main", "%macro foo 0", ".L1:", "done: ", "top:\t", "loop: ; top of the loop", "a1: ;", "end:   ;;; x", "  exit:", "start :", "  loop_2   :   ; head", "x\t:", "section\t.text", "GLOBAL\tmain", "\tsection\t.data\t; d", "global\t\t_start", "section .bss", "SECTION .rodata", "section .note.GNU-stack noalloc noexec nowrite progbits", "; trailing backslash \\"};
  bool crlf = rng.coin(); std::string nl = crlf ? "\r\n" : "\n";
  std::string canon, noisy; size_t pos = rng.below(lines.size() + 1); bool everywhere = rng.below(3) == 0;
  for (size_t i = 0; i <= lines.size(); i++) {
    if (everywhere || i == pos) { int k = 1 + (int)rng.below(2); for (int j = 0; j < k; j++) {
        if (rng.below(3) == 0) { // a generated label name: any identifier, also ones that end like a register, a segment or a keyword
          static const char *END[] = {"", "", "s", "cs", "ds", "es", "fs", "gs", "ss", "ax", "rax", "al", "word", "ptr", "far", "x", "0x1", "_", "1", "mm0", "section_", "h"};
          std::string name; int len = (int)rng.below(10); for (int q = 0; q < len; q++) name += "abcdefghijklmnopqrstuvwxyz_ABCDEFXYZ0123456789."[q == 0 ? rng.below(27) : rng.below(47)]; name += END[rng.below(22)]; if (name.empty() || isdigit((unsigned char)name[0])) name = "L" + name;
          static const char *AFTER[] = {"", "", " ", "\t", " ; comment", ";x"}; static const char *BEFORE[] = {"", "", "", " ", "   ", "\t"}; noisy += std::string(rng.below(4) == 0 ? "  " : "") + name + BEFORE[rng.below(6)] + ":" + AFTER[rng.below(6)] + nl; }
        else noisy += std::string(NOISE[rng.below(30)]) + nl; } }
    if (i < lines.size()) { canon += lines[i] + "\n"; noisy += lines[i] + nl; }
  }
  if (rng.coin() && !noisy.empty()) { // final line without terminator
    while (!noisy.empty() && (noisy.back() == '\n' || noisy.back() == '\r')) noisy.pop_back();
  }
  if (prog_out) *prog_out = noisy;
  // half of the programs run in a caller buffer that the code fills up to the documented 20-byte reserve exactly:
  // lines that emit nothing must not need any room
  int nbuf = 4096; { al::Result probe = al::assemble(canon, combo, 4096); if (probe.rc == 0 && (seed & 8)) nbuf = (int)probe.bytes.size() + 20 - (int)std::min<size_t>(probe.bytes.size(), (seed >> 4) % 3); if (nbuf < 20) nbuf = 20; }
  al::Result a = al::assemble(canon, combo, nbuf), b = al::assemble(noisy, combo, nbuf);
  if (a.rc != b.rc || a.bytes != b.bytes) { v.ok = false; v.symptom = a.rc != b.rc ? "return-code" : "bytes"; v.detail = "program with inserted non-code lines" + std::string(crlf ? " (CRLF)" : "") + " differs: rc " + std::to_string(a.rc) + " vs " + std::to_string(b.rc) + ", " + std::to_string(a.bytes.size()) + " vs " + std::to_string(b.bytes.size()) + " bytes"; }
  return v;
}

void prop_c16(hz::Ctx &ctx) {
  hz::Rng rng(ctx.seed ^ 0xc16);
  const bool have_asmline = access(cli::asmline_path().c_str(), X_OK) == 0;
  std::vector<std::string> pool; // valid canonical lines for the program part
  corpus(ctx, rng, ctx.thorough() ? 200 : 40, [&](const Intent &it) {
    int variants = ctx.thorough() ? 8 : 6;
    if (pool.size() < 4000 && rng.below(4) == 0) pool.push_back(text(it));
    for (int k = 0; k < variants; k++) {
      int combo = (int)rng.below(12); uint64_t ss = rng.next();
      if (!ctx.take()) continue;
      LineCase c{it, combo};
      std::string id = "S|" + std::to_string(ss) + "|" + serialize(c);
      if (!ctx.begin(id, text(it))) continue;
      SpV v = check_spelling(it, combo, ss);
      hz::Rng r2(ss); Style st = random_style(r2, !(is_mov_r64_imm(it) && combo_opts(combo).mov == 2));
      ctx.cls("group:line-spelling"); if (st.radix) ctx.cls("rewrite:radix"); if (st.radix == 4) ctx.cls("rewrite:decimal-leading-zeros"); if (st.big_where) ctx.cls("rewrite:long-blank-run"); if (st.upper_mn || st.upper_reg || st.upper_kw || st.upper_x || st.upper_hex) ctx.cls("rewrite:case"); if (!st.comment.empty()) ctx.cls("rewrite:comment"); if (st.lead) ctx.cls("rewrite:indent"); if (st.sp_in || st.sp_comma_l || st.sp_op) ctx.cls("rewrite:spacing");
      if (st.nrewrites >= 2) ctx.nontrivial(v.variant + "#" + std::to_string(combo));
      if (ctx.want_sample()) ctx.put_sample("\"" + v.canon + "\" vs \"" + v.variant + "\" [" + combo_name(combo) + "] -> " + (v.ok ? "same bytes" : v.symptom));
      if (!v.ok) { hz::Failure f = make_failure(c, v.symptom, v.detail); f.caseid = id; f.tags.push_back("group:line-spelling"); if (st.radix) f.tags.push_back("rewrite:radix"); ctx.fail(f); }
      // a sample of the rewritten lines also goes through the asmline tool (stdin and FILE): the same bytes again
      else if (have_asmline && (ss >> 9) % (ctx.thorough() ? 60 : 150) == 0 && it.cls != "branch") {
        al::Result a = al::assemble(v.canon, combo); if (a.rc != 0) continue;
        for (int from_stdin = 0; from_stdin < 2; from_stdin++) { int status = -1; std::string prog = std::string(((ss >> 20) & 1) ? "; header\n" : "") + v.variant + (((ss >> 21) & 1) ? "\n" : "\r\n"); auto got = cli::printed_bytes(prog, combo, from_stdin == 1, &status);
          ctx.cls("group:through-asmline");
          if (status != 0 || got != a.bytes) { hz::Failure f = make_failure(c, "asmline", std::string("asmline -p ") + (from_stdin ? "< stdin" : "FILE") + " on \"" + hz::jesc(prog).substr(0, 200) + "\": exit status " + std::to_string(status) + ", printed " + x86::hex(got.data(), got.size()) + " ; the library gives " + x86::hex(a.bytes.data(), a.bytes.size()) + " for the canonical spelling"); f.caseid = "SA|" + std::to_string(from_stdin) + "|" + id; f.tags.push_back("group:through-asmline"); ctx.fail(f); break; } }
      }
    }
  });
  // programs
  int nprog = ctx.thorough() ? 200000 : 30000;
  for (int p = 0; p < nprog && !pool.empty(); p++) {
    uint64_t ps = rng.next(); int combo = (int)rng.below(12);
    if (!ctx.take()) continue;
    hz::Rng pr(ps); int n = 1 + (int)pr.below(8); std::vector<std::string> lines; for (int i = 0; i < n; i++) lines.push_back(pool[pr.below(pool.size())]);
    std::string joined; for (auto &l : lines) joined += l + "\\n";
    std::string id = "P|" + std::to_string(ps) + "|" + std::to_string(combo) + "|" + std::to_string(n);
    if (!ctx.begin(id, joined)) continue;
    ctx.cls("group:program-noise"); ctx.nontrivial(id);
    std::string prog; SpV v = check_program_noise(lines, combo, ps ^ 0x55, &prog);
    if (ctx.want_sample()) ctx.put_sample("program of " + std::to_string(n) + " lines with comment/label/directive/blank lines inserted: " + hz::jesc(prog.substr(0, 120)) + " -> " + (v.ok ? "same bytes" : v.symptom));
    if (!v.ok) { hz::Failure f; f.caseid = "PX|" + std::to_string(combo) + "|" + std::to_string(ps ^ 0x55); for (auto &l : lines) f.caseid += "|" + l; f.text = joined; f.symptom = v.symptom; f.detail = v.detail; f.tags = {"group:program-noise", "mn:program", "form:program", "sym:" + v.symptom}; ctx.fail(f); }
  }
}

int replay_modes(const std::string &prop, const std::string &caseid) {
  auto bar = caseid.find('|'); std::string kind = caseid.substr(0, bar), rest = caseid.substr(bar + 1);
  if (kind == "A" || kind == "B" || kind == "N") {
    LineCase c; if (!parse_case(rest, c)) return 2;
    MV v = kind == "A" ? check_mov_rule(c) : kind == "B" ? check_sib_rule(c) : check_noninterference(c.it);
    printf("%s  [%s]\n", text(c.it).c_str(), combo_name(c.combo).c_str());
    if (v.ok) { printf("OK\n"); return 0; } printf("FAIL %s : %s\n", v.symptom.c_str(), v.detail.c_str()); return 1;
  }
  if (kind == "SA") { auto b1 = rest.find('|'); int from_stdin = atoi(rest.substr(0, b1).c_str()); std::string r2 = rest.substr(b1 + 1); if (r2.compare(0, 2, "S|") != 0) return 2; r2 = r2.substr(2);
    auto b2 = r2.find('|'); uint64_t ss = strtoull(r2.substr(0, b2).c_str(), nullptr, 10); LineCase c; if (!parse_case(r2.substr(b2 + 1), c)) return 2;
    SpV v = check_spelling(c.it, c.combo, ss); al::Result a = al::assemble(v.canon, c.combo); int status = -1; std::string prog = std::string(((ss >> 20) & 1) ? "; header\n" : "") + v.variant + (((ss >> 21) & 1) ? "\n" : "\r\n"); auto got = cli::printed_bytes(prog, c.combo, from_stdin == 1, &status);
    printf("variant: %s\nasmline: status %d, %s ; library: %s\n", v.variant.c_str(), status, x86::hex(got.data(), got.size()).c_str(), x86::hex(a.bytes.data(), a.bytes.size()).c_str()); bool ok = status == 0 && got == a.bytes; printf(ok ? "OK\n" : "FAIL\n"); return ok ? 0 : 1; }
  if (kind == "S") {
    auto b2 = rest.find('|'); uint64_t ss = strtoull(rest.substr(0, b2).c_str(), nullptr, 10); LineCase c; if (!parse_case(rest.substr(b2 + 1), c)) return 2;
    SpV v = check_spelling(c.it, c.combo, ss); printf("canonical: %s\nvariant:   %s\n", v.canon.c_str(), v.variant.c_str());
    if (v.ok) { printf("OK\n"); return 0; } printf("FAIL %s : %s\n", v.symptom.c_str(), v.detail.c_str()); return 1;
  }
  if (kind == "PX") {
    auto f = split(rest, '|'); if (f.size() < 3) return 2; int combo = atoi(f[0].c_str()); uint64_t seed = strtoull(f[1].c_str(), nullptr, 10);
    std::vector<std::string> lines(f.begin() + 2, f.end()); std::string prog; SpV v = check_program_noise(lines, combo, seed, &prog);
    printf("%s\n", prog.c_str()); if (v.ok) { printf("OK\n"); return 0; } printf("FAIL %s : %s\n", v.symptom.c_str(), v.detail.c_str()); return 1;
  }
  (void)prop; return 2;
}
