// Structured "intent" of one assembly line (what the generator wrote), its text
// rendering in the documented AssemblyLine syntax, the canonical instruction a
// correct assembler must emit for it, and the table of documented forms
// (DESIGN.md appendix A.1) that drives the enumerators.
#pragma once
#include "x86dec.hpp"
#include <functional>
#include <map>
#include <set>
#include <sstream>

namespace spec {
using x86::Kind;
using x86::K_GPR; using x86::K_MMX; using x86::K_XMM; using x86::K_YMM; using x86::K_MEM; using x86::K_IMM; using x86::K_REL;

// ---------------- written operands ----------------
struct WMem {
  int base = -1, index = -1, scale = 1;
  bool scale_written = false; // "*1" written explicitly
  bool scale_first = false;   // "2*rax" instead of "rax*2"
  bool has_disp = false; int64_t disp = 0; bool disp_hex = true;
  int disp_pad = 0; // minimum number of digits of the displacement (zero padded, decimal too)
  int asize = 64;
  int kw = 0;     // written size keyword: 0 none, 8,16,32,64
  int width = 0;  // semantic access width (bits); 0 for lea
};
struct WImm {
  uint64_t v = 0;      // value as a 64-bit pattern
  bool neg = false;    // written with a leading '-' (magnitude = -v)
  bool hex = true;
  int pad = 0;         // minimum number of digits (zero padded; decimal spellings too: 010 is ten)
  int space = 64;      // the width at which the value is compared (8/16/32/64)
};
struct WOpd {
  Kind k = K_GPR; int reg = 0; int width = 0; bool high8 = false;
  WMem m; WImm imm;
};
struct Intent {
  std::string mn;          // mnemonic as written (lower case)
  std::vector<WOpd> ops;
  int brkw = 0;            // 0 none, 1 short, 2 long (relative branches)
  bool far = false;        // far keyword (indirect far branch)
  std::string form;        // pattern name from the form table, e.g. "R,M"
  int size = 0;            // size parameter of the form (8/16/32/64) or 0
  std::string cls;         // instruction class (alu, mov, shift, sse, avx, bmi, branch, ...)
  bool kw_imm = false;     // the size keyword is written in front of the immediate instead of the memory operand ("add [rbx], dword 5")
};

static inline WOpd wgpr(int reg, int width, bool high8 = false) { WOpd o; o.k = K_GPR; o.reg = reg; o.width = width; o.high8 = high8; return o; }
static inline WOpd wvec(Kind k, int reg) { WOpd o; o.k = k; o.reg = reg; o.width = k == K_MMX ? 64 : k == K_XMM ? 128 : 256; return o; }
static inline WOpd wmem(const WMem &m) { WOpd o; o.k = K_MEM; o.m = m; o.width = m.width; return o; }
static inline WOpd wimm(uint64_t v, int space, bool hex = true, bool neg = false, int pad = 0) { WOpd o; o.k = K_IMM; o.imm.v = v; o.imm.space = space; o.imm.hex = hex; o.imm.neg = neg; o.imm.pad = pad; return o; }
static inline WOpd wrel(int64_t d, bool hex, int pad = 0) { WOpd o; o.k = K_REL; o.imm.v = (uint64_t)d; o.imm.hex = hex; o.imm.neg = d < 0; o.imm.pad = pad; return o; }

// ---------------- text ----------------
static inline std::string regtext(const WOpd &o) { x86::Opd r; r.k = o.k; r.reg = o.reg; r.width = o.width; r.high8 = o.high8; return x86::regname(r); }
static inline std::string numtext(uint64_t v, bool neg, bool hex, int pad) {
  char b[160];
  uint64_t mag = neg ? (uint64_t)(0 - v) : v;
  if (hex) snprintf(b, sizeof b, "%s0x%0*llx", neg ? "-" : "", pad > 0 ? pad : 1, (unsigned long long)mag);
  else snprintf(b, sizeof b, "%s%0*llu", neg ? "-" : "", pad > 0 ? pad : 1, (unsigned long long)mag);
  return b;
}
static inline std::string memtext(const WMem &m) {
  std::string s;
  if (m.kw) s += m.kw == 8 ? "byte " : m.kw == 16 ? "word " : m.kw == 32 ? "dword " : "qword ";
  s += "[";
  bool any = false;
  if (m.base >= 0) { s += regtext(wgpr(m.base, m.asize)); any = true; }
  if (m.index >= 0) {
    if (any) s += "+";
    std::string r = regtext(wgpr(m.index, m.asize));
    if (m.scale != 1 || m.scale_written) { if (m.scale_first) s += std::to_string(m.scale) + "*" + r; else s += r + "*" + std::to_string(m.scale); }
    else s += r;
    any = true;
  }
  if (m.has_disp || !any) {
    bool neg = m.disp < 0;
    if (any) s += neg ? "-" : "+"; else if (neg) s += "-";
    s += numtext((uint64_t)(neg ? -m.disp : m.disp), false, m.disp_hex, m.disp_pad);
  }
  s += "]";
  return s;
}
static inline std::string opdtext(const WOpd &o) {
  switch (o.k) {
    case K_MEM: return memtext(o.m);
    case K_IMM: return numtext(o.imm.v, o.imm.neg, o.imm.hex, o.imm.pad);
    case K_REL: return numtext(o.imm.v, o.imm.neg, o.imm.hex, o.imm.pad);
    default: return regtext(o);
  }
}
static inline std::string text_raw(const Intent &it);
// the written line; zero padding of immediates is cut back until the filtered text (blanks removed except the one behind the mnemonic) fits the
// library's documented line window of 99 characters
static inline std::string text(const Intent &it) {
  std::string s = text_raw(it); size_t flt = 0; bool sp = false; for (char ch : s) { if (ch != ' ') flt++; else if (!sp) { flt++; sp = true; } }
  if (flt <= 99) return s;
  Intent j = it; for (auto &o : j.ops) if ((o.k == K_IMM || o.k == K_REL) && o.imm.pad > 20) { size_t over = flt - 99; o.imm.pad = o.imm.pad > (int)over + 20 ? o.imm.pad - (int)over : 20; }
  return text_raw(j);
}
// the line with the operand's own size keyword written in front of register operand kwreg ("mov byte spl, al")
static inline std::string text_kwreg(const Intent &it, size_t kwreg);
static inline std::string text_raw_kw(const Intent &it, size_t kwreg);
static inline std::string text_raw(const Intent &it) { return text_raw_kw(it, (size_t)-1); }
static inline std::string text_kwreg(const Intent &it, size_t kwreg) { return text_raw_kw(it, kwreg); }
static inline std::string text_raw_kw(const Intent &it, size_t kwreg) {
  std::string s = it.mn;
  for (size_t k = 0; k < it.ops.size(); k++) {
    s += k ? ", " : " ";
    if (k == kwreg && it.ops[k].k == K_GPR) { int w = it.ops[k].width; s += w == 8 ? "byte " : w == 16 ? "word " : w == 32 ? "dword " : "qword "; }
    if (k == 0 && it.ops[k].k == K_REL && it.brkw) s += it.brkw == 1 ? "short " : "long ";
    if (k == 0 && it.far) s += "far ";
    if (it.kw_imm && it.ops[k].k == K_MEM) { WMem m = it.ops[k].m; m.kw = 0; s += memtext(m); continue; }
    if (it.kw_imm && it.ops[k].k == K_IMM) { int kw = 0; for (auto &o : it.ops) if (o.k == K_MEM) kw = o.m.kw; s += kw == 8 ? "byte " : kw == 16 ? "word " : kw == 32 ? "dword " : kw == 64 ? "qword " : ""; }
    s += opdtext(it.ops[k]);
  }
  return s;
}

// ---------------- canonical expectation ----------------
static inline int ccnum(const std::string &s) {
  static const std::map<std::string, int> M = {
    {"o",0},{"no",1},{"b",2},{"c",2},{"nae",2},{"ae",3},{"nb",3},{"nc",3},{"e",4},{"z",4},{"ne",5},{"nz",5},
    {"be",6},{"na",6},{"a",7},{"nbe",7},{"s",8},{"ns",9},{"p",10},{"pe",10},{"np",11},{"po",11},
    {"l",12},{"nge",12},{"ge",13},{"nl",13},{"le",14},{"ng",14},{"g",15},{"nle",15}};
  auto it = M.find(s); return it == M.end() ? -1 : it->second;
}
static inline std::string canon_op(const std::string &mn) {
  if (mn == "sal") return "shl";
  if (mn.rfind("cmov", 0) == 0) { int c = ccnum(mn.substr(4)); if (c >= 0) return std::string("cmov") + x86::CC[c]; }
  if (mn.rfind("set", 0) == 0) { int c = ccnum(mn.substr(3)); if (c >= 0) return std::string("set") + x86::CC[c]; }
  if (mn[0] == 'j' && mn != "jmp" && mn != "jrcxz") { int c = ccnum(mn.substr(1)); if (c >= 0) return std::string("j") + x86::CC[c]; }
  if (mn.size() >= 4 && mn.rfind("nop", 0) == 0) return "nop";
  return mn;
}

struct Opts { int mov = 2, swap = 1, nobase = 1; }; // 0 STRICT 1 NASM 2 SMART
static inline Opts combo_opts(int c) { Opts o; o.mov = c % 3; o.swap = (c / 3) % 2; o.nobase = (c / 6) % 2; return o; }
static const int DEFAULT_COMBO = 11;
static inline std::string combo_name(int c) { Opts o = combo_opts(c); static const char *N[3] = {"STRICT", "NASM", "SMART"}; return std::string("mov=") + N[o.mov] + ",swap=" + N[o.swap] + ",nobase=" + N[o.nobase]; }

static inline x86::Opd canon_opd(const WOpd &w, const Opts &o) {
  x86::Opd r; r.k = w.k; r.reg = w.reg; r.width = w.width; r.high8 = w.high8;
  if (w.k == K_MEM) {
    r.mem.base = w.m.base; r.mem.index = w.m.index; r.mem.scale = w.m.index >= 0 ? w.m.scale : 1; r.mem.disp = w.m.has_disp ? w.m.disp : 0;
    r.mem.asize = w.m.asize; r.mem.width = w.m.width; r.width = w.m.width;
    // documented exception: STRICT swap encodes a stack-pointer index literally, i.e. as "no index"
    if (w.m.index == 4 && o.swap == 0) { r.mem.index = -1; r.mem.scale = 1; }
  } else if (w.k == K_IMM) {
    r.imm = x86::maskw(w.imm.v, w.imm.space);
  } else if (w.k == K_REL) {
    r.imm = w.imm.v;
  }
  return r;
}

// All canonical instructions a correct assembler may emit for the intent.
static inline std::vector<x86::Insn> expect(const Intent &it, const Opts &o) {
  x86::Insn I; I.ok = true; I.op = canon_op(it.mn);
  if (it.mn == "movd") for (auto &w : it.ops) if (w.k == K_GPR && w.width == 64) I.op = "movq";   // movd with a 64-bit register is the REX.W form, which is movq
  if (it.far) I.op += "far";
  for (auto &w : it.ops) I.ops.push_back(canon_opd(w, o));
  // shift by the literal 1 and by imm8 are the same operation
  std::vector<x86::Insn> v{I};
  if (it.mn == "mov" && it.ops.size() == 2 && it.ops[0].k == K_GPR && it.ops[0].width == 64 && it.ops[1].k == K_IMM && it.ops[1].imm.v <= 0xffffffffULL) {
    // C11-documented register-width relaxation: mov r64, imm == mov r32, imm32 for 0 <= imm <= 0xffffffff
    x86::Insn J = I; J.ops[0].width = 32; v.push_back(J);
  }
  return v;
}

// ---------------- form table (appendix A.1) ----------------
enum KwPolicy { KW_NONE, KW_OPT, KW_REQ };
struct Form {
  const char *mns;   // space separated mnemonics
  const char *pat;   // slots: R R8 R16 R32 R64 CL M M8 M16 M32 M64 M128 M256 M0 I I8 IMOV IPUSH MM X Y REL
  const char *sizes; // subset of "bwdq" for the size parameter, "-" if none
  KwPolicy kw;
  const char *cls;
};

#define CMOVS "cmova cmovae cmovb cmovbe cmovc cmove cmovg cmovge cmovl cmovle cmovna cmovnae cmovnb cmovnbe cmovnc cmovne cmovng cmovnge cmovnl cmovnle cmovno cmovnp cmovns cmovnz cmovo cmovp cmovpe cmovpo cmovs cmovz"
#define SETS "seta setae setb setbe setc sete setg setge setl setle setna setnae setnb setnbe setnc setne setng setnge setnl setnle setno setnp setns setnz seto setp setpe setpo sets setz"
#define JCCS "ja jae jb jbe je jg jge jl jle jne jno jnp jns jo jp js"
#define ALUS "add or adc sbb and sub xor cmp"
#define PMMX "paddb paddw paddd paddq psubb psubw psubd psubq pandn por pxor pmulhuw pmulhw pmullw pmuludq pmulhrsw"
#define VPS "vpaddb vpaddw vpaddd vpaddq vpsubb vpsubw vpsubd vpsubq vpand vpandn vpor vpxor vpmulhuw vpmulhw vpmullw vpmuludq vpmuldq vpmulhrsw vpmulld"

static const Form FORMS[] = {
  // ---- integer ----
  {ALUS, "R,R", "bwdq", KW_NONE, "alu"}, {ALUS, "M,R", "bwdq", KW_OPT, "alu"}, {ALUS, "R,M", "bwdq", KW_OPT, "alu"},
  {ALUS, "R,I", "bwdq", KW_NONE, "alu"}, {ALUS, "M,I", "bwdq", KW_REQ, "alu"},
  {"test", "R,R", "bwdq", KW_NONE, "alu"}, {"test", "M,R", "bwdq", KW_OPT, "alu"}, {"test", "R,I", "bwdq", KW_NONE, "alu"}, {"test", "M,I", "bwdq", KW_REQ, "alu"},
  {"mov", "R,R", "bwdq", KW_NONE, "mov"}, {"mov", "M,R", "bwdq", KW_OPT, "mov"}, {"mov", "R,M", "bwdq", KW_OPT, "mov"},
  {"mov", "R,IMOV", "bwdq", KW_NONE, "mov"}, {"mov", "M,I", "bwdq", KW_REQ, "mov"},
  {"movzx", "R,R8", "wdq", KW_NONE, "movzx"}, {"movzx", "R,R16", "dq", KW_NONE, "movzx"}, {"movzx", "R,M8", "wdq", KW_REQ, "movzx"}, {"movzx", "R,M16", "dq", KW_REQ, "movzx"},
  {"lea", "R,M0", "wdq", KW_NONE, "lea"},
  {"xchg", "R,R", "bwdq", KW_NONE, "xchg"}, {"xchg", "R,M", "bwdq", KW_OPT, "xchg"},
  {"inc dec not neg", "R", "bwdq", KW_NONE, "unary"}, {"inc dec not neg", "M", "bwdq", KW_REQ, "unary"},
  {"imul", "R", "bwdq", KW_NONE, "imul"}, {"imul", "R,R", "wdq", KW_NONE, "imul"}, {"imul", "R,M", "wdq", KW_OPT, "imul"},
  {"imul", "R,R,I", "wdq", KW_NONE, "imul"}, {"imul", "R,M,I", "wdq", KW_OPT, "imul"},
  {"sal sar shl shr rcr ror", "R,I8", "bwdq", KW_NONE, "shift"}, {"sal sar shl shr rcr", "M,I8", "bwdq", KW_REQ, "shift"},
  {"sal sar shl shr", "R,CL", "bwdq", KW_NONE, "shift"}, {"sal sar shl shr", "M,CL", "bwdq", KW_REQ, "shift"},
  {"shld shrd", "R,R,I8", "wdq", KW_NONE, "shiftd"}, {"shld shrd", "M,R,I8", "wdq", KW_OPT, "shiftd"},
  {"shld", "R,R,CL", "wdq", KW_NONE, "shiftd"}, {"shld", "M,R,CL", "wdq", KW_OPT, "shiftd"},
  {CMOVS, "R,R", "wdq", KW_NONE, "cmov"}, {CMOVS, "R,M", "wdq", KW_OPT, "cmov"},
  {SETS, "R8", "-", KW_NONE, "setcc"}, {SETS, "M8", "-", KW_OPT, "setcc"},
  {"push pop", "R", "wq", KW_NONE, "stack"}, {"push", "M", "wq", KW_REQ, "stack"}, {"push", "IPUSH", "-", KW_NONE, "stack"},
  {"clc cpuid lfence mfence sfence rdpmc rdtsc rdtscp xend nop ret nop2 nop3 nop4 nop5 nop6 nop7 nop8 nop9 nop10 nop11", "", "-", KW_NONE, "noopd"},
  {"clflush prefetchnta prefetcht0 prefetcht1 prefetcht2", "M8", "-", KW_NONE, "hint"},
  {"xabort", "I8", "-", KW_NONE, "tsx"},
  {"adcx adox", "R,R", "dq", KW_NONE, "adx"}, {"adcx adox", "R,M", "dq", KW_OPT, "adx"},
  // ---- branches ----
  {"jmp call " JCCS " jrcxz xbegin", "REL", "-", KW_NONE, "branch"},
  {"jmp call", "R64", "-", KW_NONE, "branchind"}, {"jmp call", "M64", "-", KW_OPT, "branchind"},
  {"jmp call", "FARM", "wdq", KW_REQ, "branchfar"},
  // ---- BMI2 ----
  {"bextr bzhi sarx shlx shrx", "R,R,R", "dq", KW_NONE, "bmi"}, {"bextr bzhi sarx shlx shrx", "R,M,R", "dq", KW_OPT, "bmi"},
  {"mulx", "R,R,R", "dq", KW_NONE, "bmi"}, {"mulx", "R,R,M", "dq", KW_OPT, "bmi"},
  {"rorx", "R,R,I8", "dq", KW_NONE, "bmi"}, {"rorx", "R,M,I8", "dq", KW_OPT, "bmi"},
  // ---- MMX / SSE ----
  {"movd", "X,R32", "-", KW_NONE, "sse"}, {"movd", "X,M32", "-", KW_OPT, "sse"}, {"movd", "R32,X", "-", KW_NONE, "sse"}, {"movd", "X,R64", "-", KW_NONE, "sse"}, {"movd", "R64,X", "-", KW_NONE, "sse"}, {"movd", "M32,X", "-", KW_OPT, "sse"},
  {"movq", "X,R64", "-", KW_NONE, "sse"}, {"movq", "R64,X", "-", KW_NONE, "sse"}, {"movq", "X,X", "-", KW_NONE, "sse"}, {"movq", "X,M64", "-", KW_OPT, "sse"}, {"movq", "M64,X", "-", KW_OPT, "sse"},
  {"movntq", "M64,MM", "-", KW_OPT, "mmx"}, {"movntdqa", "X,M128", "-", KW_NONE, "sse"},
  {PMMX " pand", "MM,MM", "-", KW_NONE, "mmx"}, {PMMX " pand", "MM,M64", "-", KW_NONE, "mmx"},
  {PMMX " pand pmulld pmuldq punpcklqdq cvtdq2pd cvtpd2dq divpd mulpd", "X,X", "-", KW_NONE, "sse"},
  {PMMX " pmulld pmuldq", "X,M128", "-", KW_NONE, "sse"},
  {"psrldq", "X,I8", "-", KW_NONE, "sse"},
  // ---- AVX / AVX2 ----
  {"vaddpd vmulpd vsubpd vdivpd vpermd " VPS, "Y,Y,Y", "-", KW_NONE, "avx"}, {"vaddpd vmulpd vsubpd vdivpd vpermd " VPS, "Y,Y,M256", "-", KW_NONE, "avx"},
  {VPS, "X,X,X", "-", KW_NONE, "avx"}, {VPS, "X,X,M128", "-", KW_NONE, "avx"},
  {"vmovupd vmovdqu", "Y,Y", "-", KW_NONE, "avx"}, {"vmovupd vmovdqu", "Y,M256", "-", KW_NONE, "avx"}, {"vmovupd vmovdqu", "M256,Y", "-", KW_NONE, "avx"},
  {"vmovupd vmovdqu", "X,X", "-", KW_NONE, "avx"}, {"vmovupd vmovdqu", "X,M128", "-", KW_NONE, "avx"}, {"vmovupd vmovdqu", "M128,X", "-", KW_NONE, "avx"},
  {"vperm2i128 vperm2f128", "Y,Y,Y,I8", "-", KW_NONE, "avx"}, {"vperm2i128 vperm2f128", "Y,Y,M256,I8", "-", KW_NONE, "avx"},
};
static const int NFORMS = sizeof(FORMS) / sizeof(FORMS[0]);

static inline std::vector<std::string> split(const std::string &s, char sep) {
  std::vector<std::string> v; std::string cur;
  for (char c : s) { if (c == sep) { v.push_back(cur); cur.clear(); } else cur += c; }
  if (!cur.empty() || !s.empty()) v.push_back(cur);
  if (s.empty()) v.clear();
  return v;
}
static inline int sizebits(char c) { return c == 'b' ? 8 : c == 'w' ? 16 : c == 'd' ? 32 : c == 'q' ? 64 : 0; }

// All supported mnemonics (200 names), derived from the form table.
static inline const std::vector<std::string> &all_mnemonics() {
  static std::vector<std::string> v;
  if (v.empty()) { std::set<std::string> s; for (int f = 0; f < NFORMS; f++) for (auto &m : split(FORMS[f].mns, ' ')) s.insert(m); v.assign(s.begin(), s.end()); }
  return v;
}

// ---------------- value sets ----------------
// 64-bit boundary patterns named by C03 (returned as bit patterns).
static inline std::vector<uint64_t> boundary_values() {
  std::vector<uint64_t> v;
  const uint64_t B[] = {0, 1, 2, 0x7e, 0x7f, 0x80, 0x81, 0xe0, 0xe1, 0xfe, 0xff, 0x100, 0x101, 0x7ffe, 0x7fff, 0x8000, 0x8001, 0xfffe, 0xffff, 0x10000, 0x10001,
    0xffffff, 0x1000000, 0xfffffff, 0x10000000, 0x7ffffffe, 0x7fffffff, 0x80000000ULL, 0x80000001ULL, 0xffffff7fULL, 0xffffff80ULL, 0xffffff81ULL, 0xfffffffeULL, 0xffffffffULL, 0x100000000ULL, 0x100000001ULL,
    0x7fffffffffffULL, 0x800000000000ULL, 0x7fffffffffffffffULL, 0x8000000000000000ULL, 0xfffffffffffffffeULL};
  for (uint64_t b : B) { v.push_back(b); v.push_back((uint64_t)(0 - b)); }
  std::set<uint64_t> s(v.begin(), v.end()); v.assign(s.begin(), s.end());
  return v;
}

// is the 64-bit pattern v (interpreted as the written number, possibly negative) representable for an
// immediate compared at `space` bits with the given policy
//   'S' : signed-or-unsigned at width w (w<=32), sign-extended imm32 at w=64
//   'M' : mov r, imm : like S for w<=32, any 64-bit at w=64
//   'U' : unsigned 8-bit count
//   'P' : push : sign-extended imm32
static inline bool representable(uint64_t v, bool neg, int w, char policy) {
  int64_t sv = (int64_t)v;
  switch (policy) {
    case 'U': return !neg && v <= 0xff;
    case 'P': return neg ? (sv >= -(int64_t)0x80000000LL && sv < 0) : (v <= 0x7fffffffULL);
    case 'M': if (w == 64) return true; /* fallthrough */
    case 'S':
      if (w == 64) return neg ? (sv >= -(int64_t)0x80000000LL && sv < 0) : (v <= 0x7fffffffULL);
      if (neg) return sv < 0 && sv >= -((int64_t)1 << (w - 1));
      return v <= (w >= 64 ? ~0ULL : ((1ULL << w) - 1));
  }
  return false;
}

} // namespace spec
