// C10: malformed or unencodable lines are rejected and emit nothing.
#include "gen.hpp"
#include "props.hpp"
#include <cctype>

using namespace gen;

// ---- the x86-64 "defined under any assembler convention" kind tuples per mnemonic (DESIGN.md appendix A.2) ----
// kinds: r scalar register (GPR or MMX), v xmm, y ymm, m memory, i immediate
static std::set<std::string> defined_tuples(const std::string &mn) {
  std::set<std::string> s;
  // from the must-accept form table
  for (int f = 0; f < NFORMS; f++) {
    bool has = false; for (auto &m : split(FORMS[f].mns, ' ')) if (m == mn) has = true;
    if (!has) continue;
    std::string t;
    for (auto &sl : split(FORMS[f].pat, ',')) {
      if (sl == "X") t += 'v'; else if (sl == "Y") t += 'y'; else if (is_mem_slot(sl)) t += 'm'; else if (is_imm_slot(sl) || sl == "REL") t += 'i'; else t += 'r';
    }
    s.insert(t);
  }
  auto add = [&](std::initializer_list<const char *> l) { for (auto x : l) s.insert(x); };
  const std::string c = canon_op(mn);
  if (mn == "test") add({"rm"});
  if (mn == "xchg") add({"mr"});
  if (mn == "ret") add({"i"});
  if (mn == "pop") add({"m"});
  if (mn == "nop") add({"r", "m"});
  if (mn == "imul") add({"m", "ri"});
  if (mn == "shrd") add({"rrr", "mrr"});
  if (mn == "sal" || mn == "sar" || mn == "shl" || mn == "shr" || mn == "rcr" || mn == "ror") add({"r", "m", "ri", "mi", "rr", "mr"});
  if (mn == "bextr") add({"rri", "rmi"});
  if (mn == "movd") add({"rr", "rm", "mr"});
  if (mn == "movq") add({"rr", "rm", "mr"});
  if (mn == "movntdqa") add({"vm"});
  if (mn == "pand" || mn == "punpcklqdq" || mn == "cvtdq2pd" || mn == "cvtpd2dq" || mn == "divpd" || mn == "mulpd") add({"vm"});
  if (mn == "psrldq") add({"vi"});
  if (mn == "vaddpd" || mn == "vmulpd" || mn == "vsubpd" || mn == "vdivpd") add({"vvv", "vvm"});
  (void)c;
  return s;
}

// instantiate one operand of a kind
static std::string kind_operand(char k, hz::Rng &rng) {
  static const char *g64[] = {"rax", "rcx", "rdx", "rbx", "rsi", "rdi", "r8", "r9", "r12", "r15"};
  static const char *g32[] = {"eax", "ecx", "edx", "ebx", "esi", "r8d", "r15d"};
  static const char *mems[] = {"[rax]", "[rbx+8]", "[rcx+rdx*2]", "qword [rsi]", "[r8+0x100]", "dword [rdi]"};
  char b[32];
  switch (k) {
    case 'r': if (rng.below(4) == 0) return g32[rng.below(7)]; return g64[rng.below(10)];
    case 'v': snprintf(b, sizeof b, "xmm%d", (int)rng.below(16)); return b;
    case 'y': snprintf(b, sizeof b, "ymm%d", (int)rng.below(16)); return b;
    case 'm': return mems[rng.below(6)];
    case 'i': if (rng.coin()) { snprintf(b, sizeof b, "0x%x", (unsigned)rng.below(100) + 1); return b; } snprintf(b, sizeof b, "%d", (int)rng.below(100) + 2); return b;
  }
  return "?";
}

struct RejCase { std::string group, mn, form, bad; int combo = DEFAULT_COMBO, mode = 0 /*0 plain 1 fitting 2 counting*/, place = 0 /*0 first 1 middle 2 last*/; };

static std::string tohex(const std::string &s) { std::string o; char b[4]; for (unsigned char c : s) { snprintf(b, sizeof b, "%02x", c); o += b; } return o; }
static std::string fromhex(const std::string &h) { std::string o; for (size_t i = 0; i + 1 < h.size(); i += 2) o += (char)strtol(h.substr(i, 2).c_str(), nullptr, 16); return o; }
static std::string ser(const RejCase &c) { return "R|" + std::to_string(c.combo) + "|" + std::to_string(c.mode) + "|" + std::to_string(c.place) + "|" + c.group + "|" + c.mn + "|" + c.form + "|" + tohex(c.bad); }

struct RejVerdict { bool ok = true; std::string symptom, detail, program; };

static int run_mode(assemblyline_t a, int mode, std::string &prog, int *count) {
  if (mode == 2) { std::vector<char> w(prog.begin(), prog.end()); w.push_back(0); return asm_assemble_string_counting_chunks(a, w.data(), 16, count); }
  return asm_assemble_str(a, prog.c_str());
}

static RejVerdict check_reject(const RejCase &c) {
  RejVerdict v;
  static const char *PRE = "mov rax, rbx\nadd rcx, 5\n", *POST = "sub rdx, rsi\nret\n";
  std::string pre = c.place == 0 ? "" : PRE, post = c.place == 2 ? "" : POST;
  v.program = pre + c.bad + "\n" + post;
  const int N = 512; std::vector<uint8_t> ref(N, 0xcc), buf(N, 0xcc);
  int dummy = 0;
  // reference: the valid prefix alone
  int L = 0;
  { assemblyline_t a = asm_create_instance(ref.data(), N); al::apply_opts(a, combo_opts(c.combo)); if (c.mode == 1) asm_set_chunk_size(a, 16);
    std::string p = pre; int rc = p.empty() ? 0 : run_mode(a, c.mode, p, &dummy); L = p.empty() ? 0 : asm_get_offset(a); asm_destroy_instance(a);
    if (rc != 0 || L < 0) { v.ok = false; v.symptom = "harness"; v.detail = "valid prefix did not assemble"; return v; } }
  assemblyline_t a = asm_create_instance(buf.data(), N); al::apply_opts(a, combo_opts(c.combo)); if (c.mode == 1) asm_set_chunk_size(a, 16);
  std::string prog = v.program; int cnt = 0;
  int rc = run_mode(a, c.mode, prog, &cnt);
  int off = asm_get_offset(a);
  asm_destroy_instance(a);
  if (rc == 0) {
    v.ok = false; v.symptom = "accepted";
    int badlen = 0; std::string hexs;
    if (off > L) { hexs = x86::hex(buf.data() + L, std::min(off - L, 24)); }
    v.detail = "EXIT_SUCCESS; bytes from the bad line's position: " + hexs; (void)badlen; return v;
  }
  if (memcmp(buf.data(), ref.data(), L) != 0) { v.ok = false; v.symptom = "prefix-corrupted"; v.detail = "code of the preceding valid lines differs"; return v; }
  for (int i = L; i < N; i++) if (buf[i] != 0xcc) { v.ok = false; v.symptom = "emitted"; v.detail = "call failed but buffer byte " + std::to_string(i) + " (bad line starts at " + std::to_string(L) + ") was modified"; return v; }
  return v;
}

static void run_rej(hz::Ctx &ctx, RejCase c, hz::Rng &rng, bool all_places) {
  // placements x modes: all nine in thorough, a rotating triple in quick
  for (int place = 0; place < 3; place++) for (int mode = 0; mode < 3; mode++) {
    if (!all_places && ((place + mode + (int)(hz::fnv(c.bad) % 3)) % 3) != 0) continue;
    c.place = place; c.mode = mode; c.combo = (int)((hz::fnv(c.bad) + place * 5 + mode * 7 + ctx.seed) % 12);
    if (!ctx.take()) continue;
    std::string id = ser(c);
    if (!ctx.begin(id, c.bad)) continue;
    ctx.cls("group:" + c.group); ctx.cls(std::string("place:") + (place == 0 ? "first" : place == 1 ? "middle" : "last")); ctx.cls(std::string("mode:") + (mode == 0 ? "plain" : mode == 1 ? "fitting" : "counting"));
    if (place != 0 || mode != 0) ctx.nontrivial(c.group + "|" + c.mn + "|" + c.form + "|" + c.bad + "|" + std::to_string(place) + std::to_string(mode));
    RejVerdict v = check_reject(c);
    if (ctx.want_sample()) ctx.put_sample("[" + c.group + "] \"" + hz::jesc(c.bad) + "\" placed " + (place == 0 ? "first" : place == 1 ? "in the middle" : "last") + ", mode " + (mode == 0 ? "plain" : mode == 1 ? "fitting" : "counting") + " -> " + (v.ok ? "EXIT_FAILURE, nothing emitted" : v.symptom));
    if (!v.ok) { hz::Failure f; f.caseid = id; f.text = c.bad + "    [" + c.group + ", " + combo_name(c.combo) + "]"; f.symptom = v.symptom; f.detail = v.detail;
      f.tags = {"group:" + c.group, "mn:" + c.mn, "form:" + c.form, "sym:" + v.symptom, std::string("place:") + std::to_string(place), std::string("mode:") + std::to_string(mode)};
      if (c.form.find('i') != std::string::npos) f.tags.push_back("tuple:has-imm");
      if (c.form.empty()) f.tags.push_back("tuple:empty");
      ctx.fail(f); }
  }
  (void)rng;
}

static std::set<std::string> valid_tokens() {
  std::set<std::string> s;
  for (int w : {8, 16, 32, 64}) for (auto &o : gprs(w)) s.insert(regtext(o));
  for (auto k : {K_MMX, K_XMM, K_YMM}) for (auto &o : vecs(k)) s.insert(regtext(o));
  for (auto k : {"byte", "word", "dword", "qword", "short", "long", "far"}) s.insert(k);
  return s;
}

static std::string it_mn(int host) { return host == 0 ? "mov" : host == 1 ? "lea" : "vmovdqu"; }
void prop_c10(hz::Ctx &ctx) {
  hz::Rng rng(ctx.seed ^ 0xc10);
  bool allp = true;   // every placement x mode (nine) in both tiers; thorough adds seeds/byte values
  // ---- (1) operand-kind tuples x86-64 does not define ----
  std::vector<std::string> tuples{""};
  { const char K[] = "rvymi"; std::vector<std::string> cur{""};
    for (int len = 1; len <= 4; len++) { std::vector<std::string> nx; for (auto &t : cur) for (char k : K) if (k) nx.push_back(t + k); for (auto &t : nx) tuples.push_back(t); cur = nx; } }
  for (auto &mn : all_mnemonics()) {
    auto def = defined_tuples(mn);
    for (auto &t : tuples) {
      if (def.count(t)) continue;
      // tuples with two memory operands or an immediate before the end are covered too (also members of other groups)
      RejCase c; c.group = "kind-tuple"; c.mn = mn; c.form = t;
      std::string line = mn;
      for (size_t k = 0; k < t.size(); k++) { line += k ? ", " : " "; line += kind_operand(t[k], rng); }
      c.bad = line;
      run_rej(ctx, c, rng, allp);
    }
  }
  // ---- (2) unknown mnemonics ----
  {
    std::set<std::string> known(all_mnemonics().begin(), all_mnemonics().end());
    // a mnemonic that the tree under test lists in its own instruction table is not "unknown" to it (a later version may have learnt xadd or
    // mul; whether it encodes them correctly is outside the form table of this framework, so such names are left alone)
    { const char *src = getenv("VERIF_REPO_SRC"); std::string text; if (src && hz::read_file(std::string(src) + "/instructions.c", text)) { size_t p = 0; while ((p = text.find("{\"", p)) != std::string::npos) { size_t e = text.find('"', p + 2); if (e == std::string::npos) break; std::string nm = text.substr(p + 2, e - p - 2); bool idt = !nm.empty(); for (char ch : nm) if (!islower((unsigned char)ch) && !isdigit((unsigned char)ch)) idt = false; if (idt && !known.count(nm)) { known.insert(nm); ctx.cls("skipped:mnemonic-listed-by-the-tree"); } p = e; } } }
    std::vector<std::string> bad;
    for (auto &mn : all_mnemonics()) { bad.push_back(mn + "x"); bad.push_back(mn + mn.substr(mn.size() - 1)); if (mn.size() > 2) bad.push_back(mn.substr(0, mn.size() - 1)); bad.push_back("x" + mn); bad.push_back(mn.substr(1)); }
    for (auto b : {"foo", "movs", "mul", "div", "idiv", "loop", "int3", "hlt", "leave", "cmpxchg", "bswap", "popcnt", "andn", "pext", "vpaddx", "zzz", "a", "jz5"}) bad.push_back(b);
    // characters that are neither letters nor digits in front of, inside and behind a known mnemonic ('!' and below count as blanks,
    // ';' and '%' start a comment, ':' makes a label, ',' and ' ' separate)
    { size_t k = 0; for (auto &mn : all_mnemonics()) { for (char ch : std::string("\"#$&'()*+-./<=>?@[\\]^_`{|}~")) { if ((k++ + ctx.seed) % (ctx.thorough() ? 1 : 5)) continue; bad.push_back(std::string(1, ch) + mn); bad.push_back(mn + std::string(1, ch)); if (mn.size() > 1) bad.push_back(mn.substr(0, 1) + std::string(1, ch) + mn.substr(1)); } }
      for (auto l : {"5mov", "0ret", "9add", "1x"}) bad.push_back(l); }
    for (auto &b : bad) {
      if (b.empty() || known.count(b) || (isdigit((unsigned char)b[0]) && b.find_first_not_of("0123456789") == std::string::npos)) continue;
      if (b.find("section") != std::string::npos || b.find("global") != std::string::npos) continue;
      static const char *tails[] = {" rax, rbx", " rax", "", " [rax], 5", " xmm1, xmm2"};
      RejCase c; c.group = "unknown-mnemonic"; c.mn = b; c.form = ""; c.bad = b + tails[rng.below(5)];
      run_rej(ctx, c, rng, allp);
    }
  }
  // ---- (3) misspelt register tokens in each operand position ----
  {
    auto valid = valid_tokens();
    struct Tmpl { const char *mn; std::vector<std::string> parts; std::vector<std::string> regs; };
    // "%k" marks operand k's register token
    std::vector<Tmpl> T = {
      {"add", {"add ", ", ", ""}, {"rax", "rbx"}}, {"mov", {"mov ", ", ", ""}, {"ecx", "r9d"}}, {"mov", {"mov ", ", [", "+", "*2+8]"}, {"rdx", "rsi", "rdi"}},
      {"lea", {"lea ", ", [", "]"}, {"r10", "r11"}}, {"paddb", {"paddb ", ", ", ""}, {"xmm1", "xmm9"}}, {"vpaddq", {"vpaddq ", ", ", ", ", ""}, {"ymm0", "ymm8", "ymm15"}},
      {"shlx", {"shlx ", ", ", ", ", ""}, {"rax", "rcx", "r8"}}, {"push", {"push ", ""}, {"r12"}}, {"movq", {"movq ", ", ", ""}, {"xmm3", "rax"}}, {"sete", {"sete ", ""}, {"al"}},
      {"cmp", {"cmp byte [", "], ", ""}, {"r13", "bl"}}, {"pxor", {"pxor ", ", ", ""}, {"mm1", "mm2"}},
      {"lea", {"lea rax, [1*", "]"}, {"rcx"}}, {"lea", {"lea rax, [2*", "]"}, {"rdx"}}, {"mov", {"mov eax, [4*", "+8]"}, {"rsi"}}, {"add", {"add qword [8*", "-0x10], 1"}, {"r9"}}, {"mov", {"mov rax, [", "+", "]"}, {"rbx", "rcx"}},
      {"vmovdqu", {"vmovdqu ymm1, [1*", "+0x20]"}, {"r10"}}, {"jmp", {"jmp [", "+", "*8]"}, {"rax", "rdi"}}, {"mov", {"mov [", "], ", ""}, {"eax", "ecx"}}, {"lea", {"lea rax, [1*", "]"}, {"ecx"}},
    };
    for (auto &t : T) for (size_t pos = 0; pos < t.regs.size(); pos++) {
      const std::string &r = t.regs[pos];
      std::vector<std::string> mis;
      // unknown first letter
      for (char ch : {'t', 'u', 'w', 'z', 'q', 'k', 'v', 'n', 'o', 'g', 'j'}) mis.push_back(std::string(1, ch) + r.substr(1));
      // extra / missing character
      mis.push_back(r + "x"); mis.push_back(r + "0"); mis.push_back(r + r.substr(r.size() - 1)); if (r.size() > 2) { mis.push_back(r.substr(0, r.size() - 1)); mis.push_back(r.substr(0, 1) + r.substr(2)); }
      // numbers >= 16 and wrong suffixes
      for (auto x : {"r16", "r17", "r20", "r99", "r100", "r16d", "r16w", "r16b", "xmm16", "xmm17", "xmm31", "xmm99", "ymm16", "ymm32", "mm8", "mm9", "mm15", "r8q", "r8x", "r10h", "r9e", "r15dd", "eaxx", "rax1", "axl", "spll", "dill", "rip", "eip", "riz", "st0", "cr0", "es", "cs", "k1", "zmm0", "zmm31", "tmm0", "bnd0", "r8lb", "ebxd", "rcxw"}) mis.push_back(x);
      for (auto &m : mis) {
        if (valid.count(m)) continue;
        if (m.empty() || isdigit((unsigned char)m[0]) || m[0] == '-') continue; // would be a number
        std::string line;
        for (size_t k = 0; k < t.parts.size(); k++) { line += t.parts[k]; if (k < t.regs.size()) line += (k == pos ? m : t.regs[k]); }
        RejCase c; c.group = "misspelt-register"; c.mn = t.mn; c.form = "pos" + std::to_string(pos); c.bad = line;
        run_rej(ctx, c, rng, allp);
      }
    }
  }
  // ---- (4) invalid memory expressions ----
  {
    static const char *hosts[][2] = {{"mov rax, ", ""}, {"add dword ", ", 5"}, {"lea r15, ", ""}, {"vmovdqu ymm1, ", ""}, {"paddq xmm2, ", ""}, {"jmp ", ""}, {"inc qword ", ""}, {"shlx rax, ", ", rbx"},
      {"mov qword ", ", 0x123456789"}, {"mov qword ", ", 0x7fffffff"}, {"mov byte ", ", 1"}, {"mov word ", ", 0x1234"}, {"test dword ", ", 0x80000000"}, {"cmp qword ", ", -1"}, {"imul rax, ", ", 100000"}, {"shl qword ", ", 1"}, {"sar dword ", ", cl"},
      {"push qword ", ""}, {"call ", ""}, {"call far qword ", ""}, {"movzx eax, byte ", ""}, {"cmovne rcx, ", ""}, {"sete byte ", ""}, {"xchg rax, ", ""}, {"prefetcht0 ", ""}, {"clflush ", ""}, {"adcx rax, ", ""}, {"mulx rax, rbx, ", ""}, {"rorx rax, ", ", 3"},
      {"movd xmm1, ", ""}, {"movq ", ", xmm2"}, {"movntq ", ", mm1"}, {"pxor mm0, ", ""}, {"vpaddq ymm1, ymm2, ", ""}, {"vperm2i128 ymm1, ymm2, ", ", 1"}, {"vmovupd ", ", xmm3"}, {"shld ", ", rax, 5"}, {"mov ", ", cl"}};
    std::vector<std::pair<std::string, std::string>> exprs;
    for (int sc : {0, 3, 5, 6, 7, 9, 10, 12, 16, 32, 64}) { std::string s = std::to_string(sc);
      exprs.push_back({"bad-scale", "[rax+rbx*" + s + "]"}); exprs.push_back({"bad-scale", "[rax+" + s + "*rbx]"}); exprs.push_back({"bad-scale", "[" + s + "*rcx]"}); exprs.push_back({"bad-scale", "[rax+r9*" + s + "+8]"}); exprs.push_back({"bad-scale", "[" + s + "*r10-0x10]"}); exprs.push_back({"bad-scale", "[eax+ebx*" + s + "]"}); }
    // every other single character in the place of the scale (a blank, a bracket, a comment sign or a line end there leaves an invalid expression too)
    for (int ch = 0x20; ch <= 0x7e; ch++) { if (isdigit(ch) || ch == ':') continue;   /* digits are the bad-scale group; a line with a colon is a label line */ std::string s(1, (char)ch);
      exprs.push_back({"bad-scale-char", "[rax+rbx*" + s + "]"}); exprs.push_back({"bad-scale-char", "[rax+" + s + "*rbx]"}); exprs.push_back({"bad-scale-char", "[" + s + "*rcx]"}); exprs.push_back({"bad-scale-char", "[rax+r9*" + s + "+8]"}); exprs.push_back({"bad-scale-char", "[r8d+ecx*" + s + "-8]"}); }
    // base and index of different width: no such address exists
    { const char *R64[] = {"rax", "rcx", "rbx", "rbp", "rsi", "r8", "r12", "r13", "r15", "rsp"}, *R32[] = {"eax", "ecx", "ebx", "ebp", "edi", "r8d", "r12d", "r13d", "r14d", "esp"};
      for (int i = 0; i < 10; i++) for (int j = 0; j < 10; j++) for (int ord = 0; ord < 2; ord++) {
        std::string b = ord ? R32[j] : R64[i], x = ord ? R64[i] : R32[j]; bool spi = x == "rsp" || x == "esp"; std::string g = (i == 9 && j == 9) ? "sp-base-and-index" : "mixed-width-address";
        exprs.push_back({g, "[" + b + "+" + x + "]"});
        if ((i + j) % 3 == 0) exprs.push_back({g, "[" + b + "+" + x + "+8]"});
        if ((i + j) % 3 == 1) exprs.push_back({g, "[" + b + "+" + x + "-0x80]"});
        if (!spi && (i + j) % 2 == 0) { exprs.push_back({g, "[" + b + "+" + x + "*" + std::to_string(1 << (1 + (i + j) % 3)) + "]"}); exprs.push_back({g, "[" + b + "+" + std::to_string(1 << (1 + (i * j) % 3)) + "*" + x + "+0x100]"}); }
      } }
    for (int sc : {2, 4, 8}) { std::string s = std::to_string(sc);
      for (auto sp : {"rsp", "esp"}) { std::string b = sp[0] == 'r' ? "rax" : "eax";
        exprs.push_back({"sp-scaled-index", "[" + b + "+" + sp + "*" + s + "]"}); exprs.push_back({"sp-scaled-index", "[" + b + "+" + s + "*" + sp + "]"}); exprs.push_back({"sp-scaled-index", "[" + s + "*" + sp + "]"}); exprs.push_back({"sp-scaled-index", "[" + b + "+" + sp + "*" + s + "+0x10]"}); exprs.push_back({"sp-scaled-index", "[" + s + "*" + sp + "-8]"}); } }
    for (auto sp : {"rsp", "esp"}) { exprs.push_back({"sp-base-and-index", std::string("[") + sp + "+" + sp + "]"}); exprs.push_back({"sp-base-and-index", std::string("[") + sp + "+" + sp + "+8]"}); exprs.push_back({"sp-base-and-index", std::string("[") + sp + "+" + sp + "-0x80]"}); }
    for (auto e : {"[rax", "[rax+8", "[rax+rbx*2", "[rax+rbx*2+8", "[0x10", "[2*rax", "[r8+r9"}) exprs.push_back({"unclosed-bracket", e});
    // expressions outside the documented shapes [base + index*scale +- offset], [base + scale*index +- offset], [scale*index +- offset], [constant]
    // expressions that no assembler syntax gives a meaning (outside the documented shapes [base + index*scale +- offset], [base + scale*index +- offset], [scale*index +- offset], [constant])
    for (auto e : {"[]", "[*]", "[+]", "[-]", "[*rcx]", "[*rcx+8]", "[rcx*]", "[rax+]", "[rax-]", "[-rax]", "[rax+rbx+rcx]", "[rax+rbx+rcx+8]", "[rax+rbx*2+1*rcx]", "[rax+0x]", "[rax+12ab]", "[rax+0x12g]", "[0x]", "[12ab]", "[rax]]", "[[rax]", "[rax+[rbx]]", "[rax,rbx]", "[rax+rbx*]", "[rax+*rbx]", "[rax+r9*+8]",
                   "[rax-rbx]", "[rax+rbx-rcx]", "[rax+2*]", "[rax+*2]", "[1*]", "[rax+8*]", "[eax+ebx+ecx]", "[r8d+]", "[-eax]", "[rax*rbx]", "[rax+rbx*rcx]", "[2*rsp*2]", "[rax+3*rbx*2]"}) exprs.push_back({"malformed-address", e});
    for (auto &h : hosts) for (auto &e : exprs) {
      std::string host0 = h[0];
      if (e.first == "unclosed-bracket" && std::string(h[1]) != "") continue; // keep the bracket unclosed up to the end of line
      if ((e.first == "bad-scale-char" || e.first == "mixed-width-address") && !ctx.thorough() && (hz::fnv(host0 + e.second) + ctx.seed) % 4) continue;   // a seeded quarter of hosts x expressions in the quick tier
      RejCase c; c.group = e.first; c.mn = host0.substr(0, host0.find(' ')); c.form = e.second; c.bad = host0 + e.second + h[1];
      run_rej(ctx, c, rng, allp);
    }
    // unclosed bracket followed by another operand
    for (auto l : {"mov [rax, rbx", "add [rcx+8, 5", "mov qword [rdx, 1", "vmovdqu [rax, ymm1"}) { RejCase c; c.group = "unclosed-bracket"; c.mn = "mov"; c.form = l; c.bad = l; run_rej(ctx, c, rng, allp); }
  }
  // ---- (4b) shapes this library does not document but which have one meaning in every assembler syntax: they are rejected, or encoded with that meaning
  {
    struct Alt { const char *expr; int base, index, scale; long long disp; int asize; };
    static const Alt ALT[] = {{"[rax+8+8]", 0, -1, 1, 16, 64}, {"[rax+8-8]", 0, -1, 1, 0, 64}, {"[8+rax]", 0, -1, 1, 8, 64}, {"[0x10+rax+rbx]", 0, 3, 1, 0x10, 64}, {"[2*rax+rbx]", 3, 0, 2, 0, 64}, {"[rax*2+rbx]", 3, 0, 2, 0, 64}, {"[rax*2*2]", -1, 0, 4, 0, 64}, {"[2*2*rax]", -1, 0, 4, 0, 64},
      {"[rax+rbx*2*2]", 0, 3, 4, 0, 64}, {"[rax+2*rbx*2]", 0, 3, 4, 0, 64}, {"[esp+8+8]", 4, -1, 1, 16, 32}, {"[+rax]", 0, -1, 1, 0, 64}, {"[rax++8]", 0, -1, 1, 8, 64}, {"[rax--8]", 0, -1, 1, 8, 64}, {"[rax-+8]", 0, -1, 1, -8, 64}, {"[rax+-8]", 0, -1, 1, -8, 64}, {"[rcx*4+8]", -1, 1, 4, 8, 64}, {"[rbx+rcx+8+8]", 3, 1, 1, 16, 64}, {"[8+2*rcx]", -1, 1, 2, 8, 64}, {"[r9*8]", -1, 9, 8, 0, 64}};
    for (auto &al_ : ALT) for (int host = 0; host < 3; host++) for (int combo = 0; combo < 12; combo += 1) {
      if (!ctx.take()) continue;
      std::string line = std::string(host == 0 ? "mov rax, " : host == 1 ? "lea r15, " : "vmovdqu ymm1, ") + al_.expr; std::string id = "RA|" + std::to_string(combo) + "|" + std::to_string(host) + "|" + al_.expr;
      if (!ctx.begin(id, line)) continue;
      ctx.cls("group:unsupported-shape"); ctx.nontrivial(id);
      al::Result r = al::assemble(line, combo); std::string why;
      if (r.rc != 0) { if (r.wrote_on_failure) why = "rejected but bytes were written"; }
      else { x86::Insn g = x86::decode(r.bytes.data(), r.bytes.size()); Intent it; it.mn = host == 0 ? "mov" : host == 1 ? "lea" : "vmovdqu"; it.cls = host == 2 ? "avx" : "mov"; it.size = host == 2 ? 0 : 64; WMem m; m.base = al_.base; m.index = al_.index; m.scale = al_.scale; m.has_disp = true; m.disp = al_.disp; m.asize = al_.asize; m.width = host == 0 ? 64 : host == 1 ? 0 : 256;
        it.ops = {host == 0 ? wgpr(0, 64) : host == 1 ? wgpr(15, 64) : wvec(K_YMM, 1), wmem(m)}; spec::Opts o = combo_opts(combo); o.swap = 1; o.nobase = 1; auto want = expect(it, o); std::string w2; bool same = g.ok && (size_t)g.len == r.bytes.size() && x86::same_insn(want[0], g, &w2);
        if (!same) why = "accepted as " + x86::hex(r.bytes.data(), r.bytes.size()) + " = '" + (g.ok ? x86::to_string(g) : std::string("undecodable")) + "' ; the expression can only mean '" + x86::to_string(want[0]) + "'"; }
      if (ctx.want_sample()) ctx.put_sample("\"" + line + "\" -> " + (r.rc ? "rejected" : why.empty() ? "encoded with its one meaning" : why));
      if (!why.empty()) { hz::Failure f; f.caseid = id; f.text = line + "    [unsupported-shape, " + combo_name(combo) + "]"; f.symptom = "accepted-as-something-else"; f.detail = why; f.tags = {"group:unsupported-shape", "mn:" + it_mn(host), "form:" + std::string(al_.expr), "sym:accepted-as-something-else"}; ctx.fail(f); }
    }
  }
  // ---- (5) empty operand (first / middle), operand after an immediate ----
  {
    for (auto l : {"add , rbx", "mov , 5", "mov ,rax", "shld , rbx, 5", "add rax, , rbx", "shld rax, , 5", "vpaddq ymm1, , ymm3", "imul rax, , 5", "add ,", "mov rax,,rbx", "lea , [rax]", "vpaddb ymm0,,ymm1,ymm2", "push ,", "bextr rax, ,rbx"})
      { RejCase c; c.group = "empty-operand"; c.mn = std::string(l).substr(0, std::string(l).find(' ')); c.form = l; c.bad = l; run_rej(ctx, c, rng, allp); }
    for (auto l : {"add rax, 5, rbx", "mov rax, 1, 2", "mov rax, 0x10, rcx", "push 5, rax", "imul rax, 5, rbx", "jmp 4, rax", "add rax, 5, 6", "xabort 1, 2", "shl rax, 1, 2", "mov dword [rax], 5, 6", "test al, 1, bl", "psrldq xmm1, 3, xmm2", "rorx rax, 5, rbx", "cmp rax, -1, 0"})
      { RejCase c; c.group = "operand-after-immediate"; c.mn = std::string(l).substr(0, std::string(l).find(' ')); c.form = l; c.bad = l; run_rej(ctx, c, rng, allp); }
  }
  // ---- (5b) the same defects pushed to the end of the line filter's window (filtered length 95..103)
  {
    for (int target = 95; target <= 103; target++) for (int kind = 0; kind < 6; kind++) for (int host = 0; host < 3; host++) {
      // a valid instruction whose filtered text is lengthened with leading zeros of its immediate
      std::string head = host == 0 ? "mov rax, 0x" : host == 1 ? "add qword [rbx+rcx*8+0x10], 0x" : "vperm2i128 ymm1, ymm2, ymm3, 0x";
      size_t filtered = 0; for (char ch : head) if (ch != ' ' || filtered == 3 || (host == 1 && filtered == 3) || (host == 2 && filtered == 10)) filtered++;
      // filtered length counts every non-blank plus the single blank after the mnemonic
      filtered = 0; bool seen_space = false; for (char ch : head) { if (ch == ' ') { if (!seen_space) { filtered++; seen_space = true; } } else filtered++; }
      if ((size_t)target <= filtered + 1) continue;
      std::string line = head + std::string(target - filtered - 1, '0') + "5";
      static const char *TAIL[] = {", rbx", " , rbx", "\x80", " \xff", ", 7", "\t,rcx"};
      line += TAIL[kind];
      RejCase c; c.group = kind == 2 || kind == 3 ? "non-ascii-byte" : "operand-after-immediate"; c.mn = head.substr(0, head.find(' ')); c.form = "at" + std::to_string(target) + "/" + std::to_string(kind); c.bad = line;
      run_rej(ctx, c, rng, allp);
    }
  }
  // ---- (6) a byte outside printable ASCII (0x7f..0xff) at every position of an instruction text ----
  {
    // instruction lines, and the lines that emit nothing (label, section, global): the byte is outside a comment in all of them
    std::vector<std::string> lines = {"mov rax, rbx", "add dword [rcx+8], 0x10", "vpaddq ymm1, ymm2, ymm3", "ret", "jmp short 5", "lea r15, [rax+rsp]", "start:", "loop_1: ", "  my_label:  ", "section .text", "global _start", "SECTION .data"};
    for (auto &l : lines) for (size_t pos = 0; pos <= l.size(); pos++) {
      // exhaustive over 0x7f..0xff in thorough, a seeded subset in quick (always incl. 0x7f, 0x80, 0xff)
      std::vector<int> bytes{0x7f, 0x80, 0xff};
      if (ctx.thorough()) { bytes.clear(); for (int b = 0x7f; b <= 0xff; b++) bytes.push_back(b); } else for (int k = 0; k < 5; k++) bytes.push_back(0x81 + (int)rng.below(0x7e));
      for (int b : bytes) for (int replace = 0; replace < 2; replace++) {
        if (replace && pos >= l.size()) continue;
        std::string bad = l; if (replace) bad[pos] = (char)b; else bad.insert(pos, 1, (char)b);
        RejCase c; c.group = "non-ascii-byte"; c.mn = l.substr(0, l.find(' ')); c.form = std::string(replace ? "replace@" : "insert@") + std::to_string(pos); c.bad = bad;
        run_rej(ctx, c, rng, allp);
      }
    }
  }
}

int replay_reject(const std::string &caseid) {
  if (caseid.compare(0, 3, "RA|") == 0) { auto f = split(caseid, '|'); if (f.size() != 4) return 2; int combo = atoi(f[1].c_str()), host = atoi(f[2].c_str()); std::string line = std::string(host == 0 ? "mov rax, " : host == 1 ? "lea r15, " : "vmovdqu ymm1, ") + f[3];
    al::Result r = al::assemble(line, combo); printf("%s [%s]: rc=%d %s\n", line.c_str(), combo_name(combo).c_str(), r.rc, x86::hex(r.bytes.data(), r.bytes.size()).c_str()); if (r.rc != 0) { printf("OK (rejected)\n"); return 0; } x86::Insn g = x86::decode(r.bytes.data(), r.bytes.size()); printf("accepted as '%s' (compare with the written expression)\n", g.ok ? x86::to_string(g).c_str() : "undecodable"); return 1; }
  auto f = split(caseid, '|'); if (f.size() < 8 || f[0] != "R") return 2;
  RejCase c; c.combo = atoi(f[1].c_str()); c.mode = atoi(f[2].c_str()); c.place = atoi(f[3].c_str()); c.group = f[4]; c.mn = f[5]; c.form = f[6]; c.bad = fromhex(f[7]);
  RejVerdict v = check_reject(c);
  printf("program:\n%s[%s, mode %d]\n", v.program.c_str(), combo_name(c.combo).c_str(), c.mode);
  if (v.ok) { printf("OK: rejected, nothing emitted\n"); return 0; }
  printf("FAIL symptom=%s : %s\n", v.symptom.c_str(), v.detail.c_str()); return 1;
}
