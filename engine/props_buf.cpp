// C07: no sequence of API calls writes outside the attached buffer (guard pages + canaries + model of the
//      documented 20-byte reserve rule).   C08: the library-managed buffer grows transparently.
#include "fault/wrap.h"
#include "prog.hpp"
#include "props.hpp"
#include <sys/mman.h>
#include <sys/resource.h>
#include <sys/wait.h>

using namespace prog;

static const Pool &pool(hz::Ctx &ctx) { static Pool p = build_pool(ctx.seed, 2); return p; }
static const char *SETTER7[] = {"asm_mov_imm", "asm_sib_index_base_swap", "asm_sib_no_base", "asm_sib", "asm_set_all"};
static void real_apply7(assemblyline_t a, int setter, int v) { enum asm_opt o = (enum asm_opt)v; switch (setter % 5) { case 0: asm_mov_imm(a, o); break; case 1: asm_sib_index_base_swap(a, o); break; case 2: asm_sib_no_base(a, o); break; case 3: asm_sib(a, o); break; case 4: asm_set_all(a, o); break; } }

// ---------------------------------------------------------------- guarded arena
struct Arena {
  static const size_t PAGE = 4096, DATA = 4 * 4096;
  uint8_t *base = nullptr; uint8_t *data = nullptr;
  Arena() { base = (uint8_t *)mmap(nullptr, DATA + 2 * PAGE, PROT_NONE, MAP_PRIVATE | MAP_ANONYMOUS, -1, 0); data = base + PAGE; mprotect(data, DATA, PROT_READ | PROT_WRITE); }
  ~Arena() { munmap(base, DATA + 2 * PAGE); }
  // place a buffer of n bytes directly before the trailing guard page (at_end) or directly after the leading one
  uint8_t *place(size_t n, bool at_end) { memset(data, 0xa5, DATA); return at_end ? data + DATA - n : data; }
  bool canaries_ok(uint8_t *buf, size_t n, size_t *where) { for (uint8_t *p = data; p < data + DATA; p++) { if (p >= buf && p < buf + n) { p = buf + n - 1; continue; } if (*p != 0xa5) { *where = p - data; return false; } } return true; }
};

struct BCmd { int kind, a, b, c; };
// kinds: 0 setter(a,b) 1 set_chunk(a) 2 set_offset(a -> scaled into 0..n) 3 assemble valid(a=seed,b=nlines) 4 assemble failing(a,b,c=bad position) 5 counting(a,b,c=chunk index)
static const int CHUNKS7[] = {0, 1, 2, 3, 5, 8, 13, 16, 17, 32, 64, 100, 4096};
struct C07Case { int n = 64; bool at_end = true; uint64_t poolseed = 1; std::vector<BCmd> cmds; };
static std::string ser07(const C07Case &c) { std::string s = "C07|" + std::to_string(c.poolseed) + "|" + std::to_string(c.n) + "|" + (c.at_end ? "1" : "0"); for (auto &h : c.cmds) s += "|" + std::to_string(h.kind) + ":" + std::to_string(h.a) + ":" + std::to_string(h.b) + ":" + std::to_string(h.c); return s; }
static bool parse07(const std::string &s, C07Case &c) { auto f = split(s, '|'); if (f.size() < 4 || f[0] != "C07") return false; c.poolseed = strtoull(f[1].c_str(), nullptr, 10); c.n = atoi(f[2].c_str()); c.at_end = f[3] == "1"; for (size_t i = 4; i < f.size(); i++) { auto q = split(f[i], ':'); if (q.size() != 4) return false; c.cmds.push_back({atoi(q[0].c_str()), atoi(q[1].c_str()), atoi(q[2].c_str()), atoi(q[3].c_str())}); } return true; }
// a quarter of the programs consists of lines written as densely as possible (code as long as or longer than its text, more so with padding)
static const char *DENSE[] = {"mov [0],-1", "call 0", "jmp 0", "mov [9],-1", "add [0],-1", "xbegin 0", "mov rax,-1", "push -1", "mov [rax],-1", "call 9", "nop9", "nop11", "nop 25", "nop 200", "nop11 11"};   /* the last three are no valid lines today: whatever a later version makes of them must stay inside the buffer too */
// an eighth consists of the longest encodings the syntax reaches (13..18 bytes: address-size prefix, REX, SIB, disp32 and a wide immediate)
static const char *LONG7[] = {"imul r9d, word [eax+ebx*8+0x11223344], 0x1122334455667788", "add qword [eax+ebx*8+0x12345678], 0x1122334455667788", "mov qword [r8d+r9d*8+0x12345678], 0x55667788", "test qword [r12d+r13d*2+0x7fffffff], 0x1122334455667788",
  "imul r15, qword [r8d+r9d*4+0x11223344], 0x55667788", "vperm2i128 ymm9, ymm10, [r11d+r12d*8+0x11223344], 0x12", "shld word [r8d+r9d*2+0x12345678], r10w, 0x1122", "mov r15, 0x1122334455667788", "cmp word [eax+r9d*8-0x12345678], 0x1122334455", "mov qword [eax+ebx*8+0x12345678], 0x12345678"};
static std::vector<std::string> lines_for(const Pool &P, int seed, int nlines, int badpos) { hz::Rng r((uint64_t)seed * 2654435761ULL + 29); std::vector<std::string> v; bool dense = seed % 4 == 3;
  if (seed % 8 == 5) { nlines = 1 + (nlines % 24); for (int i = 0; i < nlines; i++) { if (badpos >= 0 && i == badpos % nlines) v.push_back(P.bad[r.below(P.bad.size())]); v.push_back(LONG7[(seed / 8 + i) % 10]); } return v; } nlines = 1 + (nlines % 24); for (int i = 0; i < nlines; i++) { if (badpos >= 0 && i == badpos % nlines) v.push_back(P.bad[r.below(P.bad.size())]); v.push_back(dense ? std::string(DENSE[r.below(15)]) : P.lines[r.below(P.lines.size())]); } return v; }
static std::string text07(const C07Case &c) {
  std::string s = "buffer of " + std::to_string(c.n) + " bytes (" + (c.at_end ? "guard page right behind" : "guard page right in front") + "): "; char b[96];
  for (auto &h : c.cmds) { switch (h.kind) {
      case 0: s += std::string(SETTER7[h.a % 5]) + "(" + std::to_string(h.b) + ")"; break;
      case 1: snprintf(b, sizeof b, "asm_set_chunk_size(%d)", CHUNKS7[h.a % 13]); s += b; break;
      case 2: snprintf(b, sizeof b, "asm_set_offset(%d)", c.n ? h.a % (c.n + 1) : 0); s += b; break;
      case 3: snprintf(b, sizeof b, "%sassemble_%s(<%d valid lines #%d>)", h.a % 3 == 1 ? "" : "asm_", (((unsigned)h.a + (unsigned)h.b) % 5 == 2) ? "file" : "str", 1 + h.b % 24, h.a); s += b; break;
      case 4: snprintf(b, sizeof b, "%sassemble_str(<program #%d with a bad line>)", h.a % 3 == 1 ? "" : "asm_", h.a); s += b; break;
      case 5: if (((unsigned)h.a + (unsigned)h.b) % 5 == 2) snprintf(b, sizeof b, "asm_assemble_file_counting_chunks(<program #%d>, %d)", h.a, CHUNKS7[h.c % 13]); else snprintf(b, sizeof b, "%sassemble_string_counting_chunks(<program #%d>, %d)", h.a % 3 == 1 ? "" : "asm_", h.a, CHUNKS7[h.c % 13]); s += b; break; }
    s += "; "; }
  return s;
}

static bool via_file7(const BCmd &h) { return ((unsigned)h.a + (unsigned)h.b) % 5 == 2; }
struct BV { bool ok = true; std::string symptom, detail; int reserve_hits = 0, fail_then_call = 0; };
static BV check07(const Pool &P, const C07Case &c) {
  BV v; auto bad = [&](const std::string &s, const std::string &d) { v.ok = false; v.symptom = s; v.detail = d; return v; };
  static Arena arena;
  const int n = c.n; uint8_t *buf = arena.place(n, c.at_end);
  al::heap_fill((unsigned)(c.n + c.cmds.size() * 3));
  assemblyline_t a = asm_create_instance(buf, n);
  if (!a) return bad("create", "asm_create_instance returned NULL for an external buffer");
  size_t chunk = 1; bool fitting = false; int combo_mov = 2, combo_swap = 1, combo_nb = 1; (void)combo_mov; (void)combo_swap; (void)combo_nb;
  bool prev_failed = false; int step = 0;
  for (auto &h : c.cmds) {
    step++;
    if (h.kind == 0) { real_apply7(a, h.a, h.b); continue; }
    if (h.kind == 1) { int cs = CHUNKS7[h.a % 13]; asm_set_chunk_size(a, cs); if (cs >= 2) { chunk = cs; fitting = true; } else fitting = false; continue; }
    if (h.kind == 2) { asm_set_offset(a, n ? h.a % (n + 1) : 0); prev_failed = false; continue; }
    // an assemble call
    if (prev_failed) v.fail_then_call++;
    int start = asm_get_offset(a);
    std::vector<uint8_t> before(buf, buf + n);
    std::vector<std::string> lines = lines_for(P, h.a, h.b, h.kind == 4 ? h.c : -1);
    std::string text = join(lines);
    // model of the documented rule (only when the starting offset is a valid position and every line is valid):
    // the call must fail at the first instruction that would start at pos with pos + 20 > n
    long long must_fail_at = -1, scribble_end = -1;
    if (start >= 0 && start <= n && h.kind != 4) {
      // option state is not tracked by the model: lengths that depend on options are measured under the instance's real options below
      long long pos = start; bool counting = h.kind == 5; size_t cs = counting ? 1 : (fitting ? chunk : 1);
      // measure per-line lengths with a big scratch instance carrying the same options: replay setters
      std::vector<uint8_t> scratch(1 << 16); assemblyline_t sc = asm_create_instance(scratch.data(), (int)scratch.size());
      for (auto &g : c.cmds) { if (&g == &h) break; if (g.kind == 0) real_apply7(sc, g.a, g.b); }
      for (auto &l : lines) {
        asm_set_offset(sc, 0); int rc = asm_assemble_str(sc, l.c_str()); int len = asm_get_offset(sc); if (rc != 0 || len <= 0) { must_fail_at = -2; break; }
        if (pos + 20 > n) { must_fail_at = pos; break; }
        // fitting: the instruction may first be written at its unpadded position (where 20 bytes were available) before the
        // library decides to pad, so [unpadded, unpadded+20) may be scribbled even if the padded position has no room left
        if (cs >= 2 && (size_t)len < cs && (size_t)pos / cs != (size_t)(pos + len - 1) / cs) { long long unpadded = pos; pos += cs - pos % cs; if (pos + 20 > n) { must_fail_at = pos; scribble_end = unpadded + 20; break; } }
        pos += len;
      }
      asm_destroy_instance(sc);
    }
    int rc, cnt = 0;
    // the deprecated names are entry points with the same contract: a third of the calls goes through them
    bool alias = h.a % 3 == 1;
    // a fifth of the calls with valid lines goes through the file entry points: the text, padded by a trailing comment to a size on or next to
    // a page multiple, is read from a file (fault-injectable build: whatever the library maps for it ends in front of an inaccessible page)
    if ((h.kind == 3 || h.kind == 5) && via_file7(h)) {
      static const size_t R[] = {4095, 0, 1, 4094}; size_t want = R[((unsigned)h.a >> 1) % 4]; std::string t = text; if (t.empty() || t.back() != '\n') t += "\n";
      size_t base = t.size() + 1, total = base + ((want + 4096 - base % 4096) % 4096); t += ';'; t += std::string(total - t.size(), 'c');
      int fd = memfd_create("c07", 0); char path[64]; snprintf(path, sizeof path, "/proc/self/fd/%d", fd);
      if (fd < 0 || write(fd, t.data(), t.size()) != (ssize_t)t.size()) { if (fd >= 0) close(fd); asm_destroy_instance(a); return bad("harness", "cannot create the program file"); }
      if (&alw != nullptr) alw.guard_files = 1;
      if (h.kind == 5) rc = asm_assemble_file_counting_chunks(a, path, CHUNKS7[h.c % 13], &cnt);
      else rc = alias ? assemble_file(a, path) : asm_assemble_file(a, path);
      if (&alw != nullptr) alw.guard_files = 0;
      close(fd);
    }
    else if (h.kind == 5) { std::vector<char> w(text.begin(), text.end()); w.push_back(0); rc = alias ? assemble_string_counting_chunks(a, w.data(), CHUNKS7[h.c % 13], &cnt) : asm_assemble_string_counting_chunks(a, w.data(), CHUNKS7[h.c % 13], &cnt); }
    else rc = alias ? assemble_str(a, text.c_str()) : asm_assemble_str(a, text.c_str());
    if (rc != 0 && rc != 1) { asm_destroy_instance(a); return bad("return-value", "call " + std::to_string(step) + " returned " + std::to_string(rc)); }
    size_t where = 0;
    if (!arena.canaries_ok(buf, n, &where)) { asm_destroy_instance(a); return bad("write-outside", "call " + std::to_string(step) + " modified memory outside [buffer, buffer+n): arena offset " + std::to_string(where) + " (buffer at " + std::to_string(buf - arena.data) + ")"); }
    if (start >= 0 && start <= n) { for (int i = 0; i < start; i++) if (buf[i] != before[i]) { asm_destroy_instance(a); return bad("prefix-touched", "call " + std::to_string(step) + " starting at offset " + std::to_string(start) + " modified byte " + std::to_string(i)); } }
    if (must_fail_at >= 0) {
      v.reserve_hits++;
      if (rc == 0) { asm_destroy_instance(a); return bad("reserve-ignored", "call " + std::to_string(step) + " started at " + std::to_string(start) + ": an instruction starts at " + std::to_string(must_fail_at) + " where fewer than 20 bytes remain (n=" + std::to_string(n) + ") but the call returned EXIT_SUCCESS"); }
      for (long long i = std::max(must_fail_at, scribble_end); i < n; i++) if (buf[i] != before[i]) { asm_destroy_instance(a); return bad("wrote-in-reserve", "call " + std::to_string(step) + " failed for lack of room but wrote at offset " + std::to_string(i) + " (instruction position " + std::to_string(must_fail_at) + ", n=" + std::to_string(n) + ")"); }
    }
    if (rc == 0) { int off = asm_get_offset(a); if (off < start || off > n) { asm_destroy_instance(a); return bad("offset", "successful call left offset " + std::to_string(off) + " (start " + std::to_string(start) + ", n=" + std::to_string(n) + ")"); } }
    prev_failed = rc != 0;
  }
  asm_destroy_instance(a);
  return v;
}
static hz::Failure fail07(const C07Case &c, const BV &v) { hz::Failure f; f.caseid = ser07(c); f.text = text07(c); f.symptom = v.symptom; f.detail = v.detail; f.tags = {"mn:history", "form:buffer", "sym:" + v.symptom}; return f; }
void showValue(const BCmd &h, std::ostream &os) { os << "{" << h.kind << "," << h.a << "," << h.b << "," << h.c << "}"; }

void prop_c07(hz::Ctx &ctx) {
  const Pool &P = pool(ctx);
  auto run = [&](const C07Case &c, const std::string &part, bool viarc) {
    std::string id = ser07(c); if (!ctx.begin(id, text07(c).substr(0, 400))) return;
    BV v = check07(P, c);
    ctx.cls(part); if (c.n < 20) ctx.cls("n:below20"); if (v.reserve_hits) ctx.cls("reserve:reached"); if (v.fail_then_call) ctx.cls("failed-call-then-call");
    if (v.reserve_hits || v.fail_then_call) ctx.nontrivial(id);
    if (ctx.want_sample()) ctx.put_sample(text07(c).substr(0, 260) + " -> " + (v.ok ? "no write outside, reserve respected (" + std::to_string(v.reserve_hits) + " reserve hits)" : v.detail));
    if (!v.ok) { hz::Failure f = fail07(c, v); if (viarc && ctx.match_known(f.tags).empty()) { rc_report(f); RC_FAIL(v.detail); } else ctx.fail(f); } };
  // exhaustive: n = 0..64 (and around the page size) x placement x a fixed set of short histories
  std::vector<std::vector<BCmd>> H = {
    {{3, 1, 2, 0}}, {{3, 2, 20, 0}}, {{2, 1000, 0, 0}, {3, 3, 1, 0}}, {{4, 4, 2, 1}, {3, 5, 2, 0}}, {{4, 4, 2, 0}, {4, 6, 1, 0}, {3, 5, 2, 0}}, {{5, 7, 3, 7}}, {{5, 7, 3, 0}, {3, 1, 1, 0}},
    {{1, 7, 0, 0}, {3, 8, 6, 0}}, {{1, 3, 0, 0}, {3, 8, 6, 0}, {3, 9, 6, 0}}, {{3, 10, 3, 0}, {3, 11, 3, 0}, {3, 12, 3, 0}}, {{3, 10, 23, 0}, {4, 1, 1, 0}, {3, 11, 23, 0}}, {{0, 4, 0, 0}, {3, 13, 8, 0}, {2, 0, 0, 0}, {5, 13, 8, 5}},
    {{4, 7, 2, 1}, {3, 7, 2, 0}}, {{4, 7, 2, 0}, {3, 9, 3, 0}, {3, 10, 3, 0}}, {{5, 10, 2, 3}, {4, 10, 3, 2}, {5, 13, 2, 3}},   // failing calls through the deprecated names, then further calls without asm_set_offset
  };
  std::vector<int> ns; for (int n = 0; n <= 64; n++) ns.push_back(n); for (int n : {100, 128, 255, 256, 1000, 4095, 4096, 4097, 8192}) ns.push_back(n);
  for (int n : ns) for (int at_end = 0; at_end < 2; at_end++) for (auto &h : H) for (int var = 0; var < 3; var++) {
    if (!ctx.take()) continue; C07Case c; c.n = n; c.at_end = at_end; c.poolseed = ctx.seed; c.cmds = h; for (auto &x : c.cmds) x.a += var * 17;
    run(c, "part:exhaustive-n", false);
  }
  // the reserve rule where chunk fitting has to pad: chunk 16/32/64, one of the longest encodings starting g bytes in front of a chunk
  // boundary (g = 1..17: every gap it can straddle), in a buffer that ends 18..23 bytes behind that position (around the 20 reserve bytes)
  for (int ci : {7, 9, 10}) for (int li = 0; li < 10; li++) for (int g = 1; g <= 17; g++) for (int e = -2; e <= 3; e++) for (int at_end = 0; at_end < 2; at_end++) {
    if (!ctx.take()) continue; int cs = CHUNKS7[ci]; if (g >= cs) continue; int pos = 3 * cs - g; C07Case c; c.n = pos + 20 + e; c.at_end = at_end; c.poolseed = ctx.seed;
    c.cmds = {{1, ci, 0, 0}, {2, pos, 0, 0}, {3, 5 + 8 * li, 0, 0}};
    run(c, "part:reserve-where-fitting-pads", false);
  }
  // random histories, n sampled up to 8192 with emphasis on small n (rapidcheck)
  static const int V[] = {0, 1, 2, 7};
  auto gcmd = rc::gen::apply([](int k, int a, int b, int c) { BCmd h{k, a, b, c}; if (k == 0) h.b = V[b & 3]; return h; }, rc::gen::weightedElement<int>({{1, 0}, {2, 1}, {3, 2}, {6, 3}, {3, 4}, {2, 5}}), range(0, 9000), range(0, 24), range(0, 13));
  auto gen_case = rc::gen::apply([&](int nsel, int nsmall, int nbig, bool at_end, std::vector<BCmd> cmds) { C07Case c; c.n = nsel < 6 ? nsmall : nbig; c.at_end = at_end; c.poolseed = ctx.seed; c.cmds = cmds; return c; },
    range(0, 10), range(0, 200), range(0, 8193), rc::gen::arbitrary<bool>(), rc::gen::container<std::vector<BCmd>>(gcmd));
  rc_rounds(ctx, "C07-histories", ctx.thorough() ? 400000 : 30000, 24, [&]() { C07Case c = *gen_case; run(c, "part:random", true); });
}

// ================================================================= C08
static std::string check08_unprivileged(int len, int k);
static std::string check08_mremap_refused(int len, int k, bool *succeeded);
struct C08Case { int q = 1, delta = 0, mode = 0, cidx = 7, combo = DEFAULT_COMBO, ncalls = 1; bool safe = true; uint64_t seed = 1, poolseed = 1; bool reassemble = false;
  int family = 0;   /* 1: (q*6000 - delta) one-byte nops, then one instruction of the pool, then the tail: probes the growth threshold exactly */
  int chunkv = -1;  /* explicit chunk size (family 1) */ bool split_tail = false; /* the last call is exactly the tail */ bool failfirst = false; /* every call is first tried with a bad line appended */ };
static std::string ser08(const C08Case &c) { char b[240]; snprintf(b, sizeof b, "C08|%llu|%llu|%d|%d|%d|%d|%d|%d|%d|%d:%d:%d:%d", (unsigned long long)c.poolseed, (unsigned long long)c.seed, c.q, c.delta, c.mode, c.cidx, c.combo, c.ncalls, c.safe, c.reassemble, c.family, c.chunkv, c.split_tail + 2 * c.failfirst); return b; }
static bool parse08(const std::string &s, C08Case &c) { auto f = split(s, '|'); if (f.size() != 11 || f[0] != "C08") return false; c.poolseed = strtoull(f[1].c_str(), nullptr, 10); c.seed = strtoull(f[2].c_str(), nullptr, 10); c.q = atoi(f[3].c_str()); c.delta = atoi(f[4].c_str()); c.mode = atoi(f[5].c_str()); c.cidx = atoi(f[6].c_str()); c.combo = atoi(f[7].c_str()); c.ncalls = atoi(f[8].c_str()); c.safe = f[9] == "1"; { auto g = split(f[10], ':'); c.reassemble = g[0] == "1"; c.family = g.size() > 1 ? atoi(g[1].c_str()) : 0; c.chunkv = g.size() > 2 ? atoi(g[2].c_str()) : -1; { int st = g.size() > 3 ? atoi(g[3].c_str()) : 0; c.split_tail = st & 1; c.failfirst = st & 2; } } return true; }
static std::string text08(const C08Case &c) { char b[300]; snprintf(b, sizeof b, "internal buffer: %s of about %d bytes (%s lines) in %d call(s)%s, mode %s chunk %d%s", c.family == 1 ? "nops up to the growth threshold then one instruction," : c.family == 2 ? "nops, one long instruction moved beyond the capacity by chunk fitting, 2600 more bytes:" : c.family == 3 ? "a short head, asm_set_offset to the given position, then a body" : "program", c.q * 6000 + (c.family == 1 ? -c.delta : c.delta), c.safe ? "executable" : "pool", c.ncalls, c.split_tail ? " + the tail as a separate call" : "", c.mode == 0 ? "plain" : c.mode == 1 ? "fitting" : "counting", c.chunkv >= 0 ? c.chunkv : CHUNKS7[c.cidx % 13], c.reassemble ? ", then re-assembly at an earlier offset" : ""); return b; }

struct GV { bool ok = true; std::string symptom, detail; int growths = 0; bool near = false; };
static GV check08(const Pool &P, const C08Case &c) {
  if (&alw != nullptr) alw.force_move = 1;   // every growth relocates the buffer: a stale pointer into the old mapping faults
  al::tight_code((c.seed >> 1) % 3 != 0);    // two thirds of the cases: the buffer also ends directly in front of an inaccessible page
  // the length argument is documented to be ignored for a library-managed buffer ("could be set to any number")
  static const int ILEN[] = {0, 0, 1, 7, 19, 20, 21, 100, 6000, 6020, 1 << 20, -5, 4096}; const int ilen = ILEN[(c.seed >> 3) % 13];
  GV v; auto bad = [&](const std::string &s, const std::string &d) { v.ok = false; v.symptom = s; v.detail = d; return v; };
  hz::Rng r(c.seed); const std::vector<std::string> &src = c.safe ? P.safe : P.lines;
  long long target = (long long)c.q * 6000 + c.delta; uint64_t retval = r.next();
  char tailb[80]; snprintf(tailb, sizeof tailb, "mov rax, 0x%016llx", (unsigned long long)retval); std::vector<std::string> tail = {tailb, "ret"};
  long long taillen = (long long)solo(tail[0], c.combo).size() + 1;
  std::vector<std::string> lines; long long total = 0;
  if (c.family == 1) { // nops up to a position just below the threshold, then one longer instruction
    long long nn = (long long)c.q * 6000 - c.delta; for (long long i = 0; i < nn; i++) lines.push_back("nop"); total = nn;
    const std::string &l = src[r.below(src.size())]; lines.push_back(l); total += solo(l, c.combo).size(); target = total + taillen; }
  if (c.family == 2) { // nops up to a position where exactly 20..28 bytes remain, one long instruction that chunk fitting has to move behind a boundary
    // inside it (so that the code ends beyond the old capacity), then enough code to need the next growth as well
    long long T = 6020 + 6000LL * (c.q - 1), pos = T - 20 - c.delta; for (long long i = 0; i < pos; i++) lines.push_back("nop"); total = pos;
    int want = 11 + (int)(c.seed % 5); auto it = P.bylen.lower_bound(want); if (it == P.bylen.end()) --it; const std::string &l = P.lines[it->second[(c.seed / 5) % it->second.size()]]; lines.push_back(l); total += solo(l, c.combo).size();
    target = total + 2600 + taillen; }
  if (c.family == 3) { // a head, asm_set_offset to a position (far) beyond the code and the current length, then a body that needs further growth
    std::vector<std::string> head, body; long long hl = 0, bl = 0; int nh = (int)(c.seed % 7); for (int i = 0; i < nh; i++) { const std::string &l = src[r.below(src.size())]; head.push_back(l); hl += solo(l, c.combo).size(); }
    while (bl < 200 + (long long)(c.seed % 5) * 1700) { const std::string &l = src[r.below(src.size())]; body.push_back(l); bl += solo(l, c.combo).size(); }
    size_t N = (size_t)c.chunkv + bl + 4096; std::vector<uint8_t> ext(N, 0xcc);
    al::heap_fill((unsigned)(c.seed + 1)); assemblyline_t ex = asm_create_instance(ext.data(), (int)N); al::heap_fill((unsigned)c.seed); assemblyline_t in = asm_create_instance(nullptr, ilen); if (!in) { asm_destroy_instance(ex); return bad("create", "asm_create_instance(NULL, 0) returned NULL"); }
    al::apply_opts(in, combo_opts(c.combo)); al::apply_opts(ex, combo_opts(c.combo)); if (c.mode == 1) { asm_set_chunk_size(in, CHUNKS7[c.cidx % 13]); asm_set_chunk_size(ex, CHUNKS7[c.cidx % 13]); }
    std::string ht = join(head), bt = join(body); int ri = 0, re = 0;
    if (!head.empty()) { ri = asm_assemble_str(in, ht.c_str()); re = asm_assemble_str(ex, ht.c_str()); }
    int h1 = asm_get_offset(in), h2 = asm_get_offset(ex); std::string why;
    if (ri != re || ri != 0 || h1 != h2) why = "head: rc " + std::to_string(ri) + "/" + std::to_string(re) + " offset " + std::to_string(h1) + "/" + std::to_string(h2);
    if (why.empty()) { int G = std::max(c.chunkv, h1); asm_set_offset(in, G); asm_set_offset(ex, G);
      ri = asm_assemble_str(in, bt.c_str()); re = asm_assemble_str(ex, bt.c_str()); int o1 = asm_get_offset(in), o2 = asm_get_offset(ex); const uint8_t *p = (const uint8_t *)asm_get_code(in);
      if (ri != re || ri != 0) why = "after asm_set_offset(" + std::to_string(G) + "): internal buffer returned " + std::to_string(ri) + ", large caller buffer " + std::to_string(re);
      else if (o1 != o2) why = "after asm_set_offset(" + std::to_string(G) + "): offset " + std::to_string(o1) + " on the internal buffer, " + std::to_string(o2) + " on a large caller buffer";
      else if (memcmp(p, ext.data(), h1)) why = "the code in front of the gap changed";
      else if (memcmp(p + G, ext.data() + G, o1 - G)) why = "the code behind asm_set_offset(" + std::to_string(G) + ") differs from the caller-buffer result";
      v.growths = o1 > 6000 ? (o1 - 1) / 6000 : 0; v.near = true; }
    if (&alw != nullptr) alw.bad_unmap = 0;
    asm_destroy_instance(in); asm_destroy_instance(ex);
    if (why.empty() && &alw != nullptr && alw.bad_unmap) why = "asm_destroy_instance unmapped more than the buffer's (page-rounded) length (offset " + std::to_string(std::max(c.chunkv, 0)) + ")";
    if (!why.empty()) return bad("offset-beyond-length", why);
    return v; }
  while (total < target - taillen - 20) { const std::string &l = src[r.below(src.size())]; auto b = solo(l, c.combo); if (b.empty() || total + (long long)b.size() > target - taillen) continue; lines.push_back(l); total += b.size(); }
  while (total < target - taillen) { lines.push_back("nop"); total += 1; }
  lines.push_back(tail[0]); lines.push_back(tail[1]);
  // split into calls at line boundaries
  std::vector<size_t> cuts; for (int i = 1; i < c.ncalls; i++) cuts.push_back(1 + r.below(lines.size() - 1)); if (c.split_tail) cuts.push_back(lines.size() - 2); std::sort(cuts.begin(), cuts.end()); cuts.push_back(lines.size());
  size_t N = 1 << 20; std::vector<uint8_t> ext(N, 0xcc);
  al::heap_fill((unsigned)(c.seed + 1)); assemblyline_t ex = asm_create_instance(ext.data(), (int)N); al::heap_fill((unsigned)c.seed); assemblyline_t in = asm_create_instance(nullptr, ilen);
  if (!in) { asm_destroy_instance(ex); return bad("create", "asm_create_instance(NULL, " + std::to_string(ilen) + ") returned NULL"); }
  al::apply_opts(in, combo_opts(c.combo)); al::apply_opts(ex, combo_opts(c.combo));
  int cs = c.chunkv >= 0 ? c.chunkv : CHUNKS7[c.cidx % 13]; if (c.mode == 1) { asm_set_chunk_size(in, cs); asm_set_chunk_size(ex, cs); }
  size_t li = 0; int call = 0;
  auto compare = [&](const std::string &when) -> bool {
    int oi = asm_get_offset(in), oe = asm_get_offset(ex);
    if (oi != oe) { bad("offset", when + ": offset " + std::to_string(oi) + " on the internal buffer, " + std::to_string(oe) + " on a large caller buffer"); return false; }
    if (oi > 0 && memcmp(asm_get_code(in), ext.data(), oi)) { size_t d = 0; const uint8_t *p = (const uint8_t *)asm_get_code(in); while (p[d] == ext[d]) d++; bad("bytes", when + ": internal buffer differs from the caller-buffer result at byte " + std::to_string(d) + " of " + std::to_string(oi)); return false; }
    return true; };
  for (size_t cut : cuts) {
    if (cut <= li) continue; std::string text; for (; li < cut; li++) text += lines[li] + "\n"; call++;
    int ri, re, ci = 0, ce = 0; int before = asm_get_offset(in);
    if (c.failfirst) { // the same lines followed by a bad one: the call fails on both buffers (after growing the internal one) and leaves both instances alike
      std::string t2 = text + P.bad[(c.seed + call) % P.bad.size()] + "\n"; int fi, fe;
      if (c.mode == 2) { std::vector<char> w1(t2.begin(), t2.end()), w2 = w1; w1.push_back(0); w2.push_back(0); fi = asm_assemble_string_counting_chunks(in, w1.data(), cs, &ci); fe = asm_assemble_string_counting_chunks(ex, w2.data(), cs, &ce); }
      else { fi = asm_assemble_str(in, t2.c_str()); fe = asm_assemble_str(ex, t2.c_str()); }
      if (fi != fe || fi == 0) { asm_destroy_instance(in); asm_destroy_instance(ex); return bad("return-code", "call " + std::to_string(call) + " with a bad last line: internal buffer returned " + std::to_string(fi) + ", large caller buffer " + std::to_string(fe)); }
      if (!compare("after the failing attempt of call " + std::to_string(call))) { asm_destroy_instance(in); asm_destroy_instance(ex); return v; }
      ci = ce = 0;
    }
    if (c.mode == 2) { std::vector<char> w1(text.begin(), text.end()), w2 = w1; w1.push_back(0); w2.push_back(0); ri = asm_assemble_string_counting_chunks(in, w1.data(), cs, &ci); re = asm_assemble_string_counting_chunks(ex, w2.data(), cs, &ce); }
    else { ri = asm_assemble_str(in, text.c_str()); re = asm_assemble_str(ex, text.c_str()); }
    if (ri != re) { asm_destroy_instance(in); asm_destroy_instance(ex); return bad("return-code", "call " + std::to_string(call) + " (from offset " + std::to_string(before) + "): internal buffer returned " + std::to_string(ri) + ", large caller buffer " + std::to_string(re)); }
    if (ri != 0) { asm_destroy_instance(in); asm_destroy_instance(ex); return bad("rejected", "call " + std::to_string(call) + " failed on both buffers although every line is valid"); }
    if (ci != ce) { asm_destroy_instance(in); asm_destroy_instance(ex); return bad("count", "chunk counts differ"); }
    if (!compare("after call " + std::to_string(call))) { asm_destroy_instance(in); asm_destroy_instance(ex); return v; }
  }
  int off = asm_get_offset(in);
  v.growths = off > 6000 ? (off - 1) / 6000 : 0;
  // an instruction boundary within +-20 of a growth threshold
  v.near = std::llabs((long long)off - (long long)c.q * 6000) <= 60;
  if (c.safe) {
    uint64_t (*fn)(void) = (uint64_t(*)(void))asm_get_code(in); uint64_t got = fn();
    if (got != retval) { asm_destroy_instance(in); asm_destroy_instance(ex); char b[120]; snprintf(b, sizeof b, "executing the grown buffer returned 0x%llx, want 0x%llx", (unsigned long long)got, (unsigned long long)retval); return bad("exec-value", b); }
  }
  if (c.reassemble) {
    int k = (int)r.below(off + 1); asm_set_offset(in, k); asm_set_offset(ex, k);
    std::string text = join(tail); int ri = asm_assemble_str(in, text.c_str()), re = asm_assemble_str(ex, text.c_str());
    if (ri != re || ri != 0) { asm_destroy_instance(in); asm_destroy_instance(ex); return bad("return-code", "re-assembly at offset " + std::to_string(k) + " returned " + std::to_string(ri) + " / " + std::to_string(re)); }
    if (!compare("after re-assembly at offset " + std::to_string(k))) { asm_destroy_instance(in); asm_destroy_instance(ex); return v; }
    // the bytes beyond the re-assembled tail must still be the old ones
    int o2 = asm_get_offset(in); if (off > o2 && memcmp((const uint8_t *)asm_get_code(in) + o2, ext.data() + o2, off - o2)) { asm_destroy_instance(in); asm_destroy_instance(ex); return bad("bytes", "earlier code behind the re-assembled region changed"); }
  }
  if (&alw != nullptr) alw.bad_unmap = 0;
  if (asm_destroy_instance(in) != 0) { asm_destroy_instance(ex); return bad("destroy", "asm_destroy_instance failed"); }
  asm_destroy_instance(ex);
  if (&alw != nullptr && alw.bad_unmap) return bad("unmap-beyond-buffer", "asm_destroy_instance unmapped more than the buffer's (page-rounded) length");
  return v;
}
static hz::Failure fail08(const C08Case &c, const GV &v) { hz::Failure f; f.caseid = ser08(c); f.text = text08(c); f.symptom = v.symptom; f.detail = v.detail; f.tags = {"mn:growth", "form:internal", "sym:" + v.symptom}; return f; }

void prop_c08(hz::Ctx &ctx) {
  const Pool &P = pool(ctx);
  auto run = [&](const C08Case &c, const std::string &part, bool viarc) {
    std::string id = ser08(c); if (!ctx.begin(id, text08(c))) return;
    GV v = check08(P, c);
    ctx.cls(part); ctx.cls(std::string("mode:") + (c.mode == 0 ? "plain" : c.mode == 1 ? "fitting" : "counting")); if (v.growths) ctx.cls("growth:yes"); if (c.safe) ctx.cls("executed"); if (c.ncalls > 1) ctx.cls("calls:split"); if (c.failfirst) ctx.cls("failing-attempt-before-each-call");
    if (v.growths && v.near) ctx.nontrivial(id);
    if (ctx.want_sample()) ctx.put_sample(text08(c) + " -> " + (v.ok ? std::to_string(v.growths) + " growth(s), identical to the caller-buffer result" + (c.safe ? ", executed correctly" : "") : v.detail));
    if (!v.ok) { hz::Failure f = fail08(c, v); if (viarc && ctx.match_known(f.tags).empty()) { rc_report(f); RC_FAIL(v.detail); } else ctx.fail(f); } };
  // systematic: every total length in q*6000 +- 40 for q = 1..5 (thorough) / stride 3 (quick), modes rotating
  int stride = ctx.thorough() ? 1 : 3;
  for (int q = 1; q <= 5; q++) for (int d = -40; d <= 40; d += stride) for (int mode = 0; mode < 3; mode++) {
    if (!ctx.take()) continue; C08Case c; c.q = q; c.delta = d + (int)(ctx.seed % stride); c.mode = mode; c.cidx = 5 + (q + d + 40) % 6; c.combo = (q * 5 + d + 40 + mode) % 12; c.ncalls = 1 + (d + 40) % 4; c.safe = (d & 1) == 0 || mode == 1; c.seed = ctx.seed * 977 + q * 131 + (d + 40) * 7 + mode; c.poolseed = ctx.seed; c.reassemble = (d + q) % 5 == 0; c.split_tail = (d + q + mode) % 3 == 0; c.failfirst = (d + 2 * q + mode) % 4 == 1;
    run(c, "part:systematic-lengths", false);
  }
  // threshold family: fitting with chunk sizes that put a boundary just behind a multiple of 6000, and plain/counting
  {
    static const int CH[] = {3, 7, 9, 11, 13, 14, 17, 19, 23, 29, 38, 100, 1001}; int step = ctx.thorough() ? 1 : 2;
    for (int q = 1; q <= 3; q++) for (int ci = 0; ci < 13; ci++) for (int d = 0; d <= 15; d += step) for (int var = 0; var < (ctx.thorough() ? 3 : 1); var++) {
      if (!ctx.take()) continue; C08Case c; c.family = 1; c.q = q; c.delta = d + (int)((ctx.seed + ci) % step); c.mode = (ci + d + var) % 4 == 3 ? ((d & 1) ? 0 : 2) : 1; c.chunkv = CH[ci]; c.combo = (q + ci + d) % 12; c.ncalls = 1 + (d % 2); c.safe = true; c.seed = ctx.seed * 31 + q * 1000 + ci * 50 + d + var * 7919; c.poolseed = ctx.seed; c.split_tail = (d + ci) % 3 == 0; c.failfirst = (d + ci + q) % 3 == 1;
      run(c, "part:threshold-family", false);
    }
  }
  // positions set beyond the code and beyond the current length of the library-managed buffer
  { static const int G[] = {0, 100, 5999, 6000, 6001, 6019, 6020, 6021, 7000, 8191, 8192, 8193, 12000, 12019, 12020, 12021, 12287, 12288, 12289, 18020, 20000, 65536, 100000, 1 << 20, 12001, 12005, 12010, 12015, 12018, 18001, 18010, 18019, 12022, 12030, 24000, 24015, 12268, 12267, 12269, 16364, 20460, 32748, 4076, 8172};
    for (int gi = 0; gi < 44; gi++) for (int var = 0; var < (ctx.thorough() ? 12 : 3); var++) { if (!ctx.take()) continue; C08Case c; c.family = 3; c.chunkv = G[gi]; c.mode = (gi + var) % 3 == 2 ? 1 : 0; c.cidx = 5 + (gi + var) % 6; c.combo = (gi * 5 + var) % 12; c.safe = false; c.seed = ctx.seed * 53 + gi * 31 + var; c.poolseed = ctx.seed; run(c, "part:offset-beyond-length", false); } }
  // overhang family: chunk fitting pushes an instruction that started inside the 20-byte reserve rule to a position beyond the current capacity
  for (int q = 1; q <= 3; q++) for (int d = 0; d <= 8; d++) for (int j = 1; j <= 12; j++) for (int lsel = 0; lsel < 5; lsel++) {
    if (!ctx.thorough() && (q * 7 + d * 3 + j + lsel + ctx.seed) % 4) continue;
    if (!ctx.take()) continue; C08Case c; c.family = 2; c.q = q; c.delta = d; c.mode = 1; long long T = 6020 + 6000LL * (q - 1); c.chunkv = (int)(T - 20 - d + j); c.combo = DEFAULT_COMBO; c.ncalls = 1 + (d + j) % 2; c.safe = false; c.seed = (uint64_t)lsel + 5 * (uint64_t)((d * 13 + j + ctx.seed) % 1000); c.poolseed = ctx.seed; c.failfirst = (d + j + lsel) % 5 == 0;
    run(c, "part:overhang-family", false);
  }
  // one mremap refused during growth: failure, or a complete and executable result
  { static const int LEN[] = {7000, 13000, 30000, 100000}; for (int li = 0; li < 4; li++) for (int k = 0; k < (ctx.thorough() ? 8 : 2); k++) {
      if (!ctx.take()) continue; std::string id = "C08M|" + std::to_string(LEN[li]) + "|" + std::to_string(k + (int)(ctx.seed % 7)); if (!ctx.begin(id, "one mremap refused during growth, " + std::to_string(LEN[li]) + " bytes of code")) continue;
      bool succ = false; std::string why = check08_mremap_refused(LEN[li], k + (int)(ctx.seed % 7), &succ);
      ctx.cls("part:one-mremap-refused"); ctx.cls(succ ? "refused-mremap:call-succeeded" : "refused-mremap:call-failed"); ctx.nontrivial(id);
      if (!why.empty()) { hz::Failure f; f.caseid = id; f.text = "library-managed buffer, one mremap refused while " + std::to_string(LEN[li]) + " bytes of code are assembled"; f.symptom = "refused-mremap"; f.detail = why; f.tags = {"mn:growth", "form:internal", "sym:refused-mremap"}; ctx.fail(f); } } }
  // the same in a process without privileges and with an ordinary user's resource limits
  { static const int LEN[] = {3000, 6100, 40000, 70000, 200000, 1000000}; for (int li = 0; li < 6; li++) for (int k = 0; k < (ctx.thorough() ? 6 : 2); k++) {
      if (!ctx.take()) continue; std::string id = "C08U|" + std::to_string(LEN[li]) + "|" + std::to_string(k + (int)(ctx.seed % 5)); if (!ctx.begin(id, "unprivileged process, " + std::to_string(LEN[li]) + " bytes of code")) continue;
      ctx.cls("part:unprivileged-process"); if (LEN[li] > 6020) ctx.nontrivial(id);
      std::string why = check08_unprivileged(LEN[li], k + (int)(ctx.seed % 5));
      if (ctx.want_sample()) ctx.put_sample("process of uid 65534 with 64 KiB lockable memory, " + std::to_string(LEN[li]) + " bytes of code -> " + (why.empty() ? "same as on a caller buffer" : why));
      if (!why.empty()) { hz::Failure f; f.caseid = id; f.text = "unprivileged process (uid 65534, RLIMIT_MEMLOCK 64 KiB): a program of " + std::to_string(LEN[li]) + " bytes of code on the library-managed buffer"; f.symptom = "unprivileged"; f.detail = why; f.tags = {"mn:growth", "form:internal", "sym:unprivileged"}; ctx.fail(f); } } }
  auto gen_case = rc::gen::apply([&](int q, int d, int mode, int cidx, int combo, int ncalls, bool safe, int seed, bool re) { C08Case c; c.q = q; c.delta = d; c.mode = mode; c.cidx = cidx; c.combo = combo; c.ncalls = ncalls; c.safe = safe; c.seed = (uint64_t)seed; c.poolseed = ctx.seed; c.reassemble = re; c.split_tail = (seed & 3) == 0; c.failfirst = (seed & 12) == 4; return c; },
    range(1, 6), range(-3000, 3001), range(0, 3), range(0, 13), range(0, 12), range(1, 9), rc::gen::arbitrary<bool>(), range(0, 1 << 30), rc::gen::arbitrary<bool>());
  rc_rounds(ctx, "C08-programs", ctx.thorough() ? 30000 : 4000, 100, [&]() { C08Case c = *gen_case; run(c, "part:random", true); }, 100);
}

// A process as an ordinary user has it: no privileges (uid 65534) and small resource limits (64 KiB of lockable memory, the classic default).
// A program of `len` bytes of code on the library-managed buffer gives what a caller buffer gives.  Run in a forked child; returns "" or what differs.
static std::string check08_unprivileged(int len, int k) {
  if (geteuid() != 0) return "";
  fflush(nullptr); pid_t pid = fork();
  if (pid == 0) {
    struct rlimit lim; lim.rlim_cur = lim.rlim_max = 64 * 1024; if (setrlimit(RLIMIT_MEMLOCK, &lim) != 0) _exit(77);
    if (setgid(65534) != 0 || setuid(65534) != 0) _exit(77);
    if (&alw != nullptr) { alw.tight_code = 0; alw.guard_code = 0; }   // the library's own mapping calls reach the kernel as they are
    static const char *L[] = {"mov rax, 0x1122334455667788\n", "add qword [rbx+rcx*8+0x100], 5\n", "nop9\n", "vpaddd ymm1, ymm2, [rax+0x40]\n"}; std::string prog; size_t code = 0; static const int LL[] = {10, 9, 9, 5};
    for (int i = 0; code < (size_t)len; i++) { prog += L[(i + k) % 4]; code += LL[(i + k) % 4]; }
    std::vector<uint8_t> ext(code + 64, 0xcc); assemblyline_t e = asm_create_instance(ext.data(), (int)ext.size()), a = asm_create_instance(nullptr, 0); if (!e || !a) _exit(2);
    int re = asm_assemble_str(e, prog.c_str()); int ncalls = 1 + k % 3; int ra = 0; size_t per = prog.size() / ncalls; size_t p0 = 0;
    for (int c = 0; c < ncalls && ra == 0; c++) { size_t p1 = c == ncalls - 1 ? prog.size() : prog.find('\n', p0 + per) + 1; ra = asm_assemble_str(a, prog.substr(p0, p1 - p0).c_str()); p0 = p1; }
    if (re != 0) _exit(3); if (ra != 0) _exit(4); if (asm_get_offset(a) != asm_get_offset(e)) _exit(5); if (memcmp(asm_get_code(a), ext.data(), asm_get_offset(e))) _exit(6);
    asm_destroy_instance(a); asm_destroy_instance(e); _exit(0);
  }
  int st = 0; waitpid(pid, &st, 0);
  if (WIFEXITED(st) && (WEXITSTATUS(st) == 0 || WEXITSTATUS(st) == 77)) return "";
  if (!WIFEXITED(st)) return "the process ended abnormally (status " + std::to_string(st) + ")";
  static const char *WHY[] = {"", "", "an instance could not be created", "the program failed on the caller buffer", "a call on the library-managed buffer returned EXIT_FAILURE (the caller buffer takes the program)", "the offsets differ", "the bytes differ"};
  int x = WEXITSTATUS(st); return x >= 2 && x <= 6 ? WHY[x] : "child status " + std::to_string(x);
}

// The operating system refuses one mremap() during growth (everything else works).  The call may report the failure; if it reports success -
// a library is free to get its memory another way - the code must be complete and the region must still be executable (it is called).
static std::string check08_mremap_refused(int len, int k, bool *succeeded) {
  if (&alw == nullptr) return "";
  std::string prog; size_t code = 0; static const char *L[] = {"nop9\n", "nop7\n", "xchg rcx, rcx\n", "nop11\n"}; static const int LL[] = {9, 7, 3, 11};
  for (int i = 0; code < (size_t)len; i++) { prog += L[(i + k) % 4]; code += LL[(i + k) % 4]; }
  uint64_t want = 0x1122334455667788ULL + (uint64_t)k * 0x0101010101ULL; char tb[64]; snprintf(tb, sizeof tb, "mov rax, 0x%016llx\nret\n", (unsigned long long)want); prog += tb;
  al::tight_code(k & 1); assemblyline_t a = asm_create_instance(nullptr, 0); if (!a) return "asm_create_instance(NULL) failed";
  asm_assemble_str(a, "nop\n");   // the refusal hits a growth, not the creation
  alw.fail_next_kind = ALW_MREMAP + 1; int rc = asm_assemble_str(a, prog.c_str()); bool consumed = alw.fail_next_kind == 0; alw.fail_next_kind = 0;
  std::string why;
  if (rc == EXIT_SUCCESS && consumed) { *succeeded = true;
    if ((size_t)asm_get_offset(a) != 1 + code + 11) why = "the call returned EXIT_SUCCESS although one mremap was refused, with offset " + std::to_string(asm_get_offset(a)) + " instead of " + std::to_string(1 + code + 11);
    else { uint64_t got = ((uint64_t(*)(void))asm_get_code(a))(); if (got != want) why = "the code assembled across the refused mremap returns another value when called"; } }
  else if (rc != EXIT_SUCCESS && rc != EXIT_FAILURE) why = "return value " + std::to_string(rc);
  asm_destroy_instance(a); al::tight_code(false);
  return why;
}

int replay_buf(const std::string &caseid) {
  hz::Ctx ctx;
  if (caseid.compare(0, 5, "C08M|") == 0) { auto f = split(caseid, '|'); if (f.size() != 3) return 2; bool ok2 = false; std::string why = check08_mremap_refused(atoi(f[1].c_str()), atoi(f[2].c_str()), &ok2); printf("one mremap refused, %s bytes of code: %s\n", f[1].c_str(), why.empty() ? "OK" : ("FAIL " + why).c_str()); return why.empty() ? 0 : 1; }
  if (caseid.compare(0, 5, "C08U|") == 0) { auto f = split(caseid, '|'); if (f.size() != 3) return 2; std::string why = check08_unprivileged(atoi(f[1].c_str()), atoi(f[2].c_str())); printf("unprivileged process, %s bytes of code: %s\n", f[1].c_str(), why.empty() ? "OK" : ("FAIL " + why).c_str()); return why.empty() ? 0 : 1; }
  if (caseid.compare(0, 4, "C07|") == 0) { C07Case c; if (!parse07(caseid, c)) return 2; ctx.seed = c.poolseed; BV v = check07(pool(ctx), c); printf("%s\n", text07(c).c_str()); if (v.ok) { printf("OK\n"); return 0; } printf("FAIL %s : %s\n", v.symptom.c_str(), v.detail.c_str()); return 1; }
  if (caseid.compare(0, 4, "C08|") == 0) { C08Case c; if (!parse08(caseid, c)) return 2; ctx.seed = c.poolseed; GV v = check08(pool(ctx), c); printf("%s\n", text08(c).c_str()); if (v.ok) { printf("OK\n"); return 0; } printf("FAIL %s : %s\n", v.symptom.c_str(), v.detail.c_str()); return 1; }
  return 2;
}
