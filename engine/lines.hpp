// Line-level cases: serialization, instantiation of forms, the generic
// "assemble - decode - compare with intent" oracle and its failure tags.
#pragma once
#include "al.hpp"
#include "harness.hpp"

namespace ln {
using namespace spec;

struct LineCase { Intent it; int combo = DEFAULT_COMBO; };

// ---------- serialization (re-executable case id) ----------
static inline std::string ser_opd(const WOpd &o) {
  char b[256];
  switch (o.k) {
    case K_GPR: snprintf(b, sizeof b, "G:%d:%d:%d", o.reg, o.width, o.high8 ? 1 : 0); break;
    case K_MMX: snprintf(b, sizeof b, "V:0:%d", o.reg); break;
    case K_XMM: snprintf(b, sizeof b, "V:1:%d", o.reg); break;
    case K_YMM: snprintf(b, sizeof b, "V:2:%d", o.reg); break;
    case K_MEM: snprintf(b, sizeof b, "M:%d:%d:%d:%d:%d:%d:%lld:%d:%d:%d:%d:%d", o.m.base, o.m.index, o.m.scale, o.m.scale_written, o.m.scale_first, o.m.has_disp, (long long)o.m.disp, o.m.disp_hex, o.m.asize, o.m.kw, o.m.width, o.m.disp_pad); break;
    case K_IMM: snprintf(b, sizeof b, "I:%llx:%d:%d:%d:%d", (unsigned long long)o.imm.v, o.imm.neg, o.imm.hex, o.imm.pad, o.imm.space); break;
    case K_REL: snprintf(b, sizeof b, "L:%lld:%d:%d", (long long)o.imm.v, o.imm.hex, o.imm.pad); break;
  }
  return b;
}
static inline std::string serialize(const LineCase &c) {
  std::string s = std::to_string(c.combo) + "|" + c.it.mn + "|" + c.it.form + "|" + std::to_string(c.it.size) + "|" + c.it.cls + "|" + std::to_string(c.it.brkw + (c.it.kw_imm ? 10 : 0)) + "|" + (c.it.far ? "1" : "0");
  for (auto &o : c.it.ops) s += "|" + ser_opd(o);
  return s;
}
static inline bool parse_case(const std::string &s, LineCase &c) {
  auto f = split(s, '|'); if (f.size() < 7) return false;
  c.combo = atoi(f[0].c_str()); c.it.mn = f[1]; c.it.form = f[2]; c.it.size = atoi(f[3].c_str()); c.it.cls = f[4]; c.it.brkw = atoi(f[5].c_str()) % 10; c.it.kw_imm = atoi(f[5].c_str()) >= 10; c.it.far = f[6] == "1";
  c.it.ops.clear();
  for (size_t i = 7; i < f.size(); i++) {
    auto g = split(f[i], ':'); if (g.empty()) return false; WOpd o;
    if (g[0] == "G" && g.size() == 4) { o = wgpr(atoi(g[1].c_str()), atoi(g[2].c_str()), g[3] == "1"); }
    else if (g[0] == "V" && g.size() == 3) { int k = atoi(g[1].c_str()); o = wvec(k == 0 ? K_MMX : k == 1 ? K_XMM : K_YMM, atoi(g[2].c_str())); }
    else if (g[0] == "M" && (g.size() == 12 || g.size() == 13)) { WMem m; m.base = atoi(g[1].c_str()); m.index = atoi(g[2].c_str()); m.scale = atoi(g[3].c_str()); m.scale_written = g[4] == "1"; m.scale_first = g[5] == "1"; m.has_disp = g[6] == "1"; m.disp = atoll(g[7].c_str()); m.disp_hex = g[8] == "1"; m.asize = atoi(g[9].c_str()); m.kw = atoi(g[10].c_str()); m.width = atoi(g[11].c_str()); if (g.size() == 13) m.disp_pad = atoi(g[12].c_str()); o = wmem(m); }
    else if (g[0] == "I" && g.size() == 6) { o = wimm(strtoull(g[1].c_str(), nullptr, 16), atoi(g[5].c_str()), g[3] == "1", g[2] == "1", atoi(g[4].c_str())); }
    else if (g[0] == "L" && (g.size() == 3 || g.size() == 4)) { o = wrel(atoll(g[1].c_str()), g[2] == "1", g.size() == 4 ? atoi(g[3].c_str()) : 0); }
    else return false;
    c.it.ops.push_back(o);
  }
  return true;
}

// ---------- encodability (x86-64 architectural constraints on a tuple) ----------
static inline bool needs_rex(const WOpd &o) {
  if (o.k == K_GPR) return o.reg >= 8 || (o.width == 8 && !o.high8 && o.reg >= 4) || false;
  if (o.k == K_XMM || o.k == K_YMM) return o.reg >= 8;
  if (o.k == K_MEM) return o.m.base >= 8 || o.m.index >= 8;
  return false;
}
static inline bool encodable(const Intent &it) {
  bool high = false, rex = false;
  for (auto &o : it.ops) { if (o.k == K_GPR && o.high8) high = true; if (needs_rex(o)) rex = true; }
  if (it.size == 64 && it.cls != "stack" && it.cls != "branchind") rex = true;
  for (auto &o : it.ops) if (o.k == K_GPR && o.width == 64 && it.cls != "stack" && it.cls != "branchind") rex = true;
  return !(high && rex);
}

// ---------- slot candidates ----------
static inline std::vector<WOpd> gprs(int width, bool with_high8 = true) {
  std::vector<WOpd> v; for (int r = 0; r < 16; r++) v.push_back(wgpr(r, width));
  if (width == 8 && with_high8) for (int r = 4; r < 8; r++) v.push_back(wgpr(r, 8, true));
  return v;
}
static inline std::vector<WOpd> vecs(Kind k) { std::vector<WOpd> v; for (int r = 0; r < (k == K_MMX ? 8 : 16); r++) v.push_back(wvec(k, r)); return v; }

static inline int slot_memwidth(const std::string &slot, int size) {
  if (slot == "M") return size; if (slot == "M0") return 0; if (slot == "FARM") return size;
  return atoi(slot.c_str() + 1);
}
static inline bool is_mem_slot(const std::string &s) { return s[0] == 'M' && s != "MM" ? true : s == "FARM"; }
static inline bool is_imm_slot(const std::string &s) { return s[0] == 'I'; }
static inline char imm_policy(const std::string &slot) { return slot == "I8" ? 'U' : slot == "IMOV" ? 'M' : slot == "IPUSH" ? 'P' : 'S'; }
static inline int imm_space(const std::string &slot, int size) { return slot == "I8" ? 8 : slot == "IPUSH" ? 64 : size; }

// register-slot candidates (non mem, non imm, non rel)
static inline std::vector<WOpd> reg_candidates(const std::string &slot, int size) {
  if (slot == "R") return gprs(size);
  if (slot == "R8") return gprs(8); if (slot == "R16") return gprs(16); if (slot == "R32") return gprs(32); if (slot == "R64") return gprs(64);
  if (slot == "CL") return {wgpr(1, 8)};
  if (slot == "MM") return vecs(K_MMX); if (slot == "X") return vecs(K_XMM); if (slot == "Y") return vecs(K_YMM);
  return {};
}

// finalize a memory operand for a slot: width and keyword
static inline WOpd mem_for_slot(WMem m, const std::string &slot, int size, KwPolicy kp, bool write_opt_kw) {
  m.width = slot_memwidth(slot, size);
  m.kw = 0;
  if (kp == KW_REQ || (kp == KW_OPT && write_opt_kw)) m.kw = m.width;
  return wmem(m);
}

// ---------- tags ----------
static inline void mem_tags(const WMem &m, std::vector<std::string> &t) {
  auto bclass = [](int r) -> std::string { if (r < 0) return "none"; if (r == 4) return "rsp"; if (r == 5) return "rbp"; if (r == 12) return "r12"; if (r == 13) return "r13"; if (r == 0) return "rax"; return r >= 8 ? "ext" : "low"; };
  t.push_back("mem:base=" + bclass(m.base));
  t.push_back(std::string("mem:index=") + (m.index < 0 ? "none" : m.index == 4 ? "rsp" : m.index >= 8 ? "ext" : "low"));
  if (m.index >= 0) t.push_back("mem:scale=" + std::to_string(m.scale));
  if (m.index >= 0 && (m.index == 12 || m.index == 13 || m.index == 5)) t.push_back("mem:index5or12or13");
  std::string d = !m.has_disp ? "none" : m.disp == 0 ? "zero" : m.disp > 0 ? (m.disp <= 0x7f ? "pos8" : "pos32") : (m.disp >= -0x80 ? "neg8" : "neg32");
  t.push_back("mem:disp=" + d);
  if (m.has_disp && m.disp < 0) t.push_back("mem:disp<0");
  t.push_back("mem:asize=" + std::to_string(m.asize));
  t.push_back("mem:kw=" + std::to_string(m.kw));
  if (m.base < 0 && m.index < 0) t.push_back("mem:disponly");
  if (m.disp_pad) t.push_back(m.disp_hex ? "mem:disp-padded" : "mem:disp-dec-leading-zero");
}
static inline int minbytes(uint64_t v) { int n = 1; while (n < 8 && (v >> (8 * n))) n++; return n; }
static inline std::vector<std::string> case_tags(const LineCase &c) {
  std::vector<std::string> t; const Intent &it = c.it; char b[64];
  t.push_back("mn:" + it.mn); t.push_back("op:" + canon_op(it.mn)); t.push_back("cls:" + it.cls); t.push_back("form:" + it.form); t.push_back("size:" + std::to_string(it.size));
  bool anyext = false, anyhigh = false;
  for (size_t k = 0; k < it.ops.size(); k++) {
    const WOpd &o = it.ops[k];
    if (o.k == K_GPR) { if (o.reg >= 8) { anyext = true; snprintf(b, sizeof b, "opd%zu:ext", k); t.push_back(b); } if (o.high8) anyhigh = true; if (o.reg == 0) { snprintf(b, sizeof b, "opd%zu:acc", k); t.push_back(b); } snprintf(b, sizeof b, "opd%zu:w%d", k, o.width); t.push_back(b); }
    if (o.k == K_XMM || o.k == K_YMM || o.k == K_MMX) { if (o.reg >= 8) { snprintf(b, sizeof b, "opd%zu:ext", k); t.push_back(b); anyext = true; } }
    if (o.k == K_MEM) { mem_tags(o.m, t); snprintf(b, sizeof b, "memopd:%zu", k); t.push_back(b); }
    if (o.k == K_IMM) {
      uint64_t v = x86::maskw(o.imm.v, o.imm.space);
      if (o.imm.neg) t.push_back("imm:neg");
      t.push_back(o.imm.hex ? "imm:hex" : "imm:dec");
      snprintf(b, sizeof b, "imm:minbytes=%d", minbytes(o.imm.neg ? (uint64_t)(0 - o.imm.v) : o.imm.v)); t.push_back(b);
      if (v >= 0x80) t.push_back("imm:>=0x80"); if (v > 0xff) t.push_back("imm:>0xff"); if (v > 0xffff) t.push_back("imm:>0xffff");
      if (v >= 0x80000000ULL) t.push_back("imm:>=0x80000000");
      if (o.imm.v == 1 && !o.imm.neg) t.push_back("imm:one");
      if (o.imm.pad) t.push_back("imm:padded");
      if (o.imm.pad && !o.imm.hex) t.push_back("imm:dec-leading-zero");
    }
    if (o.k == K_REL) { int64_t d = (int64_t)o.imm.v; if (d < 0) t.push_back("rel:neg"); if (d >= -128 && d <= 127) t.push_back("rel:fits8"); else t.push_back("rel:needs32"); }
  }
  if (anyext) t.push_back("reg:ext"); if (anyhigh) t.push_back("reg:high8");
  if (it.brkw) t.push_back(it.brkw == 1 ? "kw:short" : "kw:long");
  if (it.far) t.push_back("kw:far"); if (it.kw_imm) t.push_back("kw:on-immediate");
  Opts o = combo_opts(c.combo); static const char *N[3] = {"STRICT", "NASM", "SMART"};
  t.push_back(std::string("opt:mov=") + N[o.mov]); t.push_back(std::string("opt:swap=") + N[o.swap]); t.push_back(std::string("opt:nobase=") + N[o.nobase]);
  return t;
}

// ---------- the generic oracle ----------
struct Verdict { bool ok = true; std::string symptom, detail; al::Result res; x86::Insn got; };

static inline Verdict check_encoding(const LineCase &c) {
  Verdict v; std::string line = text(c.it);
  v.res = al::assemble(line, c.combo);
  if (v.res.rc != 0) { v.ok = false; v.symptom = "rejected"; v.detail = "asm_assemble_str returned EXIT_FAILURE for a documented form"; return v; }
  size_t n = v.res.bytes.size();
  if (v.res.off_after - v.res.off_before != (int)n || v.res.prefix_touched) { v.ok = false; v.symptom = "offset"; v.detail = "offset advance inconsistent"; return v; }
  if (n == 0) { v.ok = false; v.symptom = "nobytes"; v.detail = "success but no bytes emitted"; return v; }
  v.got = x86::decode(v.res.bytes.data(), n);
  auto want = expect(c.it, combo_opts(c.combo));
  std::string hexs = x86::hex(v.res.bytes.data(), n);
  if (!v.got.ok) { v.ok = false; v.symptom = "undecodable"; v.detail = "bytes " + hexs + " : " + v.got.err + " ; want " + x86::to_string(want[0]); return v; }
  if ((size_t)v.got.len != n) { v.ok = false; v.symptom = "length"; v.detail = "bytes " + hexs + " : first instruction '" + x86::to_string(v.got) + "' has length " + std::to_string(v.got.len) + " but " + std::to_string(n) + " bytes were emitted ; want " + x86::to_string(want[0]); return v; }
  std::string why, why0;
  for (size_t k = 0; k < want.size(); k++) { if (x86::same_insn(want[k], v.got, &why)) return v; if (k == 0) why0 = why; }
  v.ok = false; v.symptom = why0; v.detail = "bytes " + hexs + " decode to '" + x86::to_string(v.got) + "' ; want '" + x86::to_string(want[0]) + "'";
  return v;
}

static inline hz::Failure make_failure(const LineCase &c, const std::string &symptom, const std::string &detail) {
  hz::Failure f; f.caseid = serialize(c); f.text = text(c.it) + "    [" + combo_name(c.combo) + "]"; f.symptom = symptom; f.detail = detail;
  f.tags = case_tags(c); f.tags.push_back("sym:" + symptom); return f;
}

} // namespace ln
