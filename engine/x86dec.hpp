// Reference x86-64 (long mode) decoder for the instruction subset AssemblyLine
// supports, written from the Intel SDM vol. 2, independent of the tables in
// /repo/src/instructions.c.  Output is a *canonical* instruction: aliases are
// folded, operands appear in Intel-syntax order, immediates are extended the
// way the architecture extends them.  Anything outside the subset is reported
// as undecodable.
#pragma once
#include <cstdint>
#include <cstdio>
#include <cstring>
#include <string>
#include <vector>

namespace x86 {

enum Kind { K_GPR, K_MMX, K_XMM, K_YMM, K_MEM, K_IMM, K_REL };

struct Mem {
  int base = -1;  // 0..15, -1 none, 16 = RIP
  int index = -1; // 0..15, -1 none
  int scale = 1;  // 1,2,4,8 (meaningful only with index)
  int64_t disp = 0;
  int asize = 64; // address size 64 or 32
  int width = 0;  // access width in bits; 0 = not an access (lea) / unsized
  int dispbytes = 0; // informational: 0,1,4
  bool sib = false;  // informational
};

struct Opd {
  Kind k = K_GPR;
  int reg = 0;      // register number 0..15
  int width = 0;    // GPR: 8/16/32/64 ; MMX 64 ; XMM 128 ; YMM 256 ; IMM/REL: field bits
  bool high8 = false; // ah ch dh bh
  Mem mem;
  uint64_t imm = 0; // IMM: value extended to operand size and masked to it; REL: sign-extended displacement
};

struct Insn {
  bool ok = false;
  std::string err;
  int len = 0;
  std::string op;    // canonical mnemonic
  int opsize = 0;    // GPR operand size or vector length; 0 when n/a
  std::vector<Opd> ops;
  // raw facts (for diagnostics and a few property clauses)
  int n66 = 0, n67 = 0, nF2 = 0, nF3 = 0;
  bool rex = false; uint8_t rexbits = 0;
  bool vex = false; int vexbytes = 0, vexL = 0, vexW = 0, vexpp = 0, vexmap = 0, vvvv = 0;
  int map = 0; uint8_t opcode = 0;
  bool modrm = false; int mod = 0, regf = 0, rmf = 0;
  int immbytes = 0;
  bool isnop = false; // single NOP-class instruction (90 / 0f 1f /0 with prefixes)
};

static inline uint64_t maskw(uint64_t v, int w) { return w >= 64 ? v : (v & ((1ULL << w) - 1)); }
static inline int64_t sx(uint64_t v, int bits) {
  if (bits >= 64) return (int64_t)v;
  uint64_t m = 1ULL << (bits - 1);
  v &= (1ULL << bits) - 1;
  return (int64_t)((v ^ m) - m);
}

static const char *CC[16] = {"o","no","b","ae","e","ne","be","a","s","ns","p","np","l","ge","le","g"};
static const char *ALU[8] = {"add","or","adc","sbb","and","sub","xor","cmp"};
static const char *SHF[8] = {"rol","ror","rcl","rcr","shl","shr","shl","sar"};

struct Decoder {
  const uint8_t *p; size_t n; size_t i = 0;
  Insn I;
  bool fail(const std::string &e) { I.ok = false; if (I.err.empty()) I.err = e; return false; }
  bool need(size_t k) { return i + k <= n; }
  bool u8(uint8_t &b) { if (!need(1)) return fail("truncated"); b = p[i++]; return true; }
  bool rd(int bytes, uint64_t &v) {
    if (!need(bytes)) return fail("truncated");
    v = 0; for (int k = 0; k < bytes; k++) v |= (uint64_t)p[i + k] << (8 * k);
    i += bytes; return true;
  }

  bool W = false, R = false, X = false, B = false;
  int opsz() const { return W ? 64 : (I.n66 ? 16 : 32); }

  Opd gpr(int r, int w) {
    Opd o; o.k = K_GPR; o.width = w; o.reg = r;
    if (w == 8 && !I.rex && !I.vex && r >= 4 && r <= 7) o.high8 = true;
    return o;
  }
  Opd vreg(Kind k, int r) { Opd o; o.k = k; o.reg = r; o.width = k == K_MMX ? 64 : k == K_XMM ? 128 : 256; if (k == K_MMX) o.reg &= 7; return o; }
  Opd immop(uint64_t raw, int fieldbits, int opsize, bool signext) {
    Opd o; o.k = K_IMM; o.width = fieldbits;
    uint64_t v = signext ? (uint64_t)sx(raw, fieldbits) : raw;
    o.imm = maskw(v, opsize); return o;
  }

  // parse ModRM (+SIB+disp).  Returns r/m operand as register number (mod==3) or Mem.
  bool modrm(bool &isreg, int &rmreg, Mem &m) {
    uint8_t b; if (!u8(b)) return false;
    I.modrm = true; I.mod = b >> 6; I.regf = ((b >> 3) & 7) | (R ? 8 : 0); int rm = b & 7;
    m = Mem(); m.asize = I.n67 ? 32 : 64;
    if (I.mod == 3) { isreg = true; rmreg = rm | (B ? 8 : 0); I.rmf = rmreg; return true; }
    isreg = false;
    int dispb = I.mod == 1 ? 1 : I.mod == 2 ? 4 : 0;
    if (rm == 4) {
      uint8_t s; if (!u8(s)) return false;
      m.sib = true;
      int sc = s >> 6, ix = ((s >> 3) & 7) | (X ? 8 : 0), bs = (s & 7);
      if (ix != 4) { m.index = ix; m.scale = 1 << sc; }
      if (bs == 5 && I.mod == 0) { m.base = -1; dispb = 4; }
      else m.base = bs | (B ? 8 : 0);
    } else if (rm == 5 && I.mod == 0) {
      m.base = 16; dispb = 4; // RIP-relative
    } else m.base = rm | (B ? 8 : 0);
    I.rmf = rm | (B ? 8 : 0);
    if (dispb) { uint64_t d; if (!rd(dispb, d)) return false; m.disp = sx(d, dispb * 8); }
    m.dispbytes = dispb;
    return true;
  }
  Opd rmop_gpr(bool isreg, int rmreg, const Mem &m, int w) {
    if (isreg) return gpr(rmreg, w);
    Opd o; o.k = K_MEM; o.mem = m; o.mem.width = w; o.width = w; return o;
  }
  Opd rmop_vec(bool isreg, int rmreg, const Mem &m, Kind k, int memw) {
    if (isreg) return vreg(k, rmreg);
    Opd o; o.k = K_MEM; o.mem = m; o.mem.width = memw; o.width = memw; return o;
  }
  bool imm(int bytes, uint64_t &raw) { I.immbytes = bytes; return rd(bytes, raw); }

  bool done(const char *op, int opsize) { I.op = op; I.opsize = opsize; I.ok = true; I.len = (int)i; return true; }
  bool done(const std::string &op, int opsize) { return done(op.c_str(), opsize); }

  bool decode() {
    // legacy prefixes
    for (;;) {
      if (!need(1)) return fail("truncated");
      uint8_t b = p[i];
      if (b == 0x66) I.n66++; else if (b == 0x67) I.n67++; else if (b == 0xf2) I.nF2++; else if (b == 0xf3) I.nF3++;
      else if (b == 0x2e || b == 0x36 || b == 0x3e || b == 0x26 || b == 0x64 || b == 0x65 || b == 0xf0) return fail("segment/lock prefix");
      else break;
      i++;
      if (i > 14) return fail("too many prefixes");
    }
    uint8_t b; if (!u8(b)) return false;
    if ((b & 0xf0) == 0x40) { I.rex = true; I.rexbits = b & 15; W = b & 8; R = b & 4; X = b & 2; B = b & 1; if (!u8(b)) return false;
      if ((b & 0xf0) == 0x40 || b == 0x66 || b == 0x67 || b == 0xf2 || b == 0xf3) return fail("REX not immediately before opcode"); }
    if (b == 0xc4 || b == 0xc5) {
      if (I.rex || I.n66 || I.nF2 || I.nF3) return fail("VEX with legacy prefix/REX");
      return decode_vex(b);
    }
    if (b == 0x0f) {
      if (!u8(b)) return false;
      if (b == 0x38) { I.map = 2; if (!u8(b)) return false; I.opcode = b; return decode_0f38(b); }
      if (b == 0x3a) { I.map = 3; return fail("legacy 0F3A unsupported"); }
      I.map = 1; I.opcode = b; return decode_0f(b);
    }
    I.map = 0; I.opcode = b; return decode_legacy(b);
  }

  bool no_simd_prefix() { if (I.nF2 || I.nF3) return fail("unexpected F2/F3 prefix"); return true; }

  bool decode_legacy(uint8_t b) {
    bool isreg; int rmreg; Mem m; uint64_t raw;
    if (!no_simd_prefix()) return false;
    if (b < 0x40) {
      int k = b >> 3, lo = b & 7;
      if (lo >= 6) return fail("invalid legacy opcode in 64-bit mode");
      if (lo < 4) {
        if (!modrm(isreg, rmreg, m)) return false;
        int w = (lo & 1) ? opsz() : 8;
        Opd e = rmop_gpr(isreg, rmreg, m, w), g = gpr(I.regf, w);
        if (lo & 2) { I.ops = {g, e}; } else { I.ops = {e, g}; }
        return done(ALU[k], w);
      }
      int w = lo == 4 ? 8 : opsz();
      int ib = lo == 4 ? 1 : (w == 16 ? 2 : 4);
      if (!imm(ib, raw)) return false;
      I.ops = {gpr(0, w), immop(raw, ib * 8, w, true)};
      return done(ALU[k], w);
    }
    if (b >= 0x50 && b <= 0x5f) {
      int w = I.n66 ? 16 : 64; int r = (b & 7) | (B ? 8 : 0);
      I.ops = {gpr(r, w)}; return done(b < 0x58 ? "push" : "pop", w);
    }
    if (b == 0x68 || b == 0x6a) {
      int w = I.n66 ? 16 : 64; int ib = b == 0x6a ? 1 : (I.n66 ? 2 : 4);
      if (!imm(ib, raw)) return false;
      I.ops = {immop(raw, ib * 8, w, true)}; return done("push", w);
    }
    if (b == 0x69 || b == 0x6b) {
      if (!modrm(isreg, rmreg, m)) return false;
      int w = opsz(); int ib = b == 0x6b ? 1 : (w == 16 ? 2 : 4);
      if (!imm(ib, raw)) return false;
      I.ops = {gpr(I.regf, w), rmop_gpr(isreg, rmreg, m, w), immop(raw, ib * 8, w, true)};
      return done("imul", w);
    }
    if (b >= 0x70 && b <= 0x7f) {
      if (!imm(1, raw)) return false;
      Opd o; o.k = K_REL; o.width = 8; o.imm = (uint64_t)sx(raw, 8); I.ops = {o};
      return done(std::string("j") + CC[b & 15], 64);
    }
    if (b == 0x80 || b == 0x81 || b == 0x83) {
      if (!modrm(isreg, rmreg, m)) return false;
      int w = b == 0x80 ? 8 : opsz(); int ib = b == 0x81 ? (w == 16 ? 2 : 4) : 1;
      if (!imm(ib, raw)) return false;
      I.ops = {rmop_gpr(isreg, rmreg, m, w), immop(raw, ib * 8, w, true)};
      return done(ALU[I.regf & 7], w);
    }
    if (b == 0x84 || b == 0x85 || b == 0x86 || b == 0x87 || (b >= 0x88 && b <= 0x8b)) {
      if (!modrm(isreg, rmreg, m)) return false;
      int w = (b & 1) ? opsz() : 8;
      Opd e = rmop_gpr(isreg, rmreg, m, w), g = gpr(I.regf, w);
      if (b == 0x8a || b == 0x8b) I.ops = {g, e}; else I.ops = {e, g};
      return done(b < 0x86 ? "test" : b < 0x88 ? "xchg" : "mov", w);
    }
    if (b == 0x8d) {
      if (!modrm(isreg, rmreg, m)) return false;
      if (isreg) return fail("lea with register operand");
      int w = opsz(); Opd e = rmop_gpr(false, 0, m, 0); e.mem.width = 0; e.width = 0;
      I.ops = {gpr(I.regf, w), e}; return done("lea", w);
    }
    if (b == 0x8f) {
      if (!modrm(isreg, rmreg, m)) return false;
      if ((I.regf & 7) != 0) return fail("8f /nonzero");
      int w = I.n66 ? 16 : 64; I.ops = {rmop_gpr(isreg, rmreg, m, w)}; return done("pop", w);
    }
    if (b >= 0x90 && b <= 0x97) {
      int r = (b & 7) | (B ? 8 : 0);
      if (r == 0) { I.isnop = true; return done("nop", 0); }
      int w = opsz(); I.ops = {gpr(r, w), gpr(0, w)}; return done("xchg", w);
    }
    if (b == 0xa8 || b == 0xa9) {
      int w = b == 0xa8 ? 8 : opsz(); int ib = b == 0xa8 ? 1 : (w == 16 ? 2 : 4);
      if (!imm(ib, raw)) return false;
      I.ops = {gpr(0, w), immop(raw, ib * 8, w, true)}; return done("test", w);
    }
    if (b >= 0xb0 && b <= 0xb7) {
      if (!imm(1, raw)) return false;
      I.ops = {gpr((b & 7) | (B ? 8 : 0), 8), immop(raw, 8, 8, false)}; return done("mov", 8);
    }
    if (b >= 0xb8 && b <= 0xbf) {
      int w = opsz(); int ib = w / 8;
      if (!imm(ib, raw)) return false;
      I.ops = {gpr((b & 7) | (B ? 8 : 0), w), immop(raw, w, w, false)}; return done("mov", w);
    }
    if (b == 0xc0 || b == 0xc1 || (b >= 0xd0 && b <= 0xd3)) {
      if (!modrm(isreg, rmreg, m)) return false;
      int w = (b & 1) ? opsz() : 8;
      Opd e = rmop_gpr(isreg, rmreg, m, w);
      if (b <= 0xc1) { if (!imm(1, raw)) return false; I.ops = {e, immop(raw, 8, 8, false)}; }
      else if (b <= 0xd1) { I.ops = {e, immop(1, 8, 8, false)}; }
      else { I.ops = {e, gpr(1, 8)}; }
      return done(SHF[I.regf & 7], w);
    }
    if (b == 0xc2) { if (!imm(2, raw)) return false; I.ops = {immop(raw, 16, 16, false)}; return done("ret", 64); }
    if (b == 0xc3) return done("ret", 64);
    if (b == 0xc6 || b == 0xc7) {
      if (!need(1)) return fail("truncated");
      if (p[i] == 0xf8) {
        i++;
        if (b == 0xc6) { if (!imm(1, raw)) return false; I.ops = {immop(raw, 8, 8, false)}; return done("xabort", 0); }
        int ib = I.n66 ? 2 : 4; if (!imm(ib, raw)) return false;
        Opd o; o.k = K_REL; o.width = ib * 8; o.imm = (uint64_t)sx(raw, ib * 8); I.ops = {o}; return done("xbegin", 0);
      }
      if (!modrm(isreg, rmreg, m)) return false;
      if ((I.regf & 7) != 0) return fail("c6/c7 /nonzero");
      int w = b == 0xc6 ? 8 : opsz(); int ib = b == 0xc6 ? 1 : (w == 16 ? 2 : 4);
      if (!imm(ib, raw)) return false;
      I.ops = {rmop_gpr(isreg, rmreg, m, w), immop(raw, ib * 8, w, true)}; return done("mov", w);
    }
    if (b == 0xe3) {
      if (!imm(1, raw)) return false;
      Opd o; o.k = K_REL; o.width = 8; o.imm = (uint64_t)sx(raw, 8); I.ops = {o};
      return done(I.n67 ? "jecxz" : "jrcxz", 64);
    }
    if (b == 0xe8 || b == 0xe9) {
      if (I.n66) return fail("66-prefixed near branch");
      if (!imm(4, raw)) return false;
      Opd o; o.k = K_REL; o.width = 32; o.imm = (uint64_t)sx(raw, 32); I.ops = {o};
      return done(b == 0xe8 ? "call" : "jmp", 64);
    }
    if (b == 0xeb) {
      if (!imm(1, raw)) return false;
      Opd o; o.k = K_REL; o.width = 8; o.imm = (uint64_t)sx(raw, 8); I.ops = {o}; return done("jmp", 64);
    }
    if (b == 0xf6 || b == 0xf7) {
      if (!modrm(isreg, rmreg, m)) return false;
      int w = b == 0xf6 ? 8 : opsz(); int k = I.regf & 7;
      Opd e = rmop_gpr(isreg, rmreg, m, w);
      if (k <= 1) { int ib = b == 0xf6 ? 1 : (w == 16 ? 2 : 4); if (!imm(ib, raw)) return false; I.ops = {e, immop(raw, ib * 8, w, true)}; return done("test", w); }
      static const char *N[8] = {"", "", "not", "neg", "mul", "imul", "div", "idiv"};
      I.ops = {e}; return done(N[k], w);
    }
    if (b == 0xf8) return done("clc", 0);
    if (b == 0xfe || b == 0xff) {
      if (!modrm(isreg, rmreg, m)) return false;
      int k = I.regf & 7;
      if (k <= 1) { int w = b == 0xfe ? 8 : opsz(); I.ops = {rmop_gpr(isreg, rmreg, m, w)}; return done(k ? "dec" : "inc", w); }
      if (b == 0xfe) return fail("fe /2..7");
      if (k == 2 || k == 4) { if (I.n66) return fail("66 near indirect branch"); I.ops = {rmop_gpr(isreg, rmreg, m, 64)}; return done(k == 2 ? "call" : "jmp", 64); }
      if (k == 3 || k == 5) {
        if (isreg) return fail("far branch with register");
        int w = opsz(); // m16:16 / m16:32 / m16:64
        I.ops = {rmop_gpr(false, 0, m, w)}; return done(k == 3 ? "callfar" : "jmpfar", w);
      }
      if (k == 6) { int w = I.n66 ? 16 : 64; I.ops = {rmop_gpr(isreg, rmreg, m, w)}; return done("push", w); }
      return fail("ff /7");
    }
    return fail("unsupported legacy opcode");
  }

  // mandatory-prefix selection for SSE: exactly one of none/66/F3/F2
  int simd_pp() {
    int c = (I.n66 ? 1 : 0) + (I.nF3 ? 1 : 0) + (I.nF2 ? 1 : 0);
    if (c > 1) return -1;
    return I.n66 ? 1 : I.nF3 ? 2 : I.nF2 ? 3 : 0;
  }

  static const char *pop_name(uint8_t b) {
    switch (b) {
      case 0xfc: return "paddb"; case 0xfd: return "paddw"; case 0xfe: return "paddd"; case 0xd4: return "paddq";
      case 0xf8: return "psubb"; case 0xf9: return "psubw"; case 0xfa: return "psubd"; case 0xfb: return "psubq";
      case 0xdb: return "pand"; case 0xdf: return "pandn"; case 0xeb: return "por"; case 0xef: return "pxor";
      case 0xe4: return "pmulhuw"; case 0xe5: return "pmulhw"; case 0xd5: return "pmullw"; case 0xf4: return "pmuludq";
    }
    return nullptr;
  }

  bool decode_0f(uint8_t b) {
    bool isreg; int rmreg; Mem m; uint64_t raw;
    if (b == 0x01) {
      if (!no_simd_prefix()) return false;
      uint8_t c; if (!u8(c)) return false;
      if (c == 0xf9) return done("rdtscp", 0);
      if (c == 0xd5) return done("xend", 0);
      return fail("0f 01 unsupported");
    }
    if (b == 0x18) {
      if (!no_simd_prefix()) return false;
      if (!modrm(isreg, rmreg, m)) return false;
      if (isreg) return fail("prefetch with register");
      int k = I.regf & 7; if (k > 3) return fail("0f 18 /4..7");
      static const char *N[4] = {"prefetchnta", "prefetcht0", "prefetcht1", "prefetcht2"};
      I.ops = {rmop_gpr(false, 0, m, 8)}; return done(N[k], 0);
    }
    if (b == 0x1f) {
      if (!no_simd_prefix()) return false;
      if (!modrm(isreg, rmreg, m)) return false;
      if ((I.regf & 7) != 0) return fail("0f 1f /nonzero");
      I.isnop = true; return done("nop", 0);
    }
    if (b == 0x31 || b == 0x33 || b == 0xa2) { if (!no_simd_prefix()) return false; return done(b == 0x31 ? "rdtsc" : b == 0x33 ? "rdpmc" : "cpuid", 0); }
    if (b >= 0x40 && b <= 0x4f) {
      if (!no_simd_prefix()) return false;
      if (!modrm(isreg, rmreg, m)) return false;
      int w = opsz(); I.ops = {gpr(I.regf, w), rmop_gpr(isreg, rmreg, m, w)};
      return done(std::string("cmov") + CC[b & 15], w);
    }
    if (b >= 0x80 && b <= 0x8f) {
      if (!no_simd_prefix()) return false;
      if (I.n66) return fail("66-prefixed jcc");
      if (!imm(4, raw)) return false;
      Opd o; o.k = K_REL; o.width = 32; o.imm = (uint64_t)sx(raw, 32); I.ops = {o};
      return done(std::string("j") + CC[b & 15], 64);
    }
    if (b >= 0x90 && b <= 0x9f) {
      if (!no_simd_prefix()) return false;
      if (!modrm(isreg, rmreg, m)) return false;
      I.ops = {rmop_gpr(isreg, rmreg, m, 8)}; return done(std::string("set") + CC[b & 15], 8);
    }
    if (b == 0xa4 || b == 0xa5 || b == 0xac || b == 0xad) {
      if (!no_simd_prefix()) return false;
      if (!modrm(isreg, rmreg, m)) return false;
      int w = opsz(); Opd e = rmop_gpr(isreg, rmreg, m, w), g = gpr(I.regf, w);
      if (b & 1) I.ops = {e, g, gpr(1, 8)};
      else { if (!imm(1, raw)) return false; I.ops = {e, g, immop(raw, 8, 8, false)}; }
      return done(b < 0xa8 ? "shld" : "shrd", w);
    }
    if (b == 0xae) {
      if (!no_simd_prefix()) return false;
      if (!modrm(isreg, rmreg, m)) return false;
      int k = I.regf & 7;
      if (isreg) {
        if ((rmreg & 7) != 0 || I.rex) return fail("fence with nonzero rm/REX");
        if (k == 5) return done("lfence", 0); if (k == 6) return done("mfence", 0); if (k == 7) return done("sfence", 0);
        return fail("0f ae reg form");
      }
      if (k == 7) { if (I.n66) return fail("clflushopt"); I.ops = {rmop_gpr(false, 0, m, 8)}; return done("clflush", 0); }
      return fail("0f ae mem form");
    }
    if (b == 0xaf) {
      if (!no_simd_prefix()) return false;
      if (!modrm(isreg, rmreg, m)) return false;
      int w = opsz(); I.ops = {gpr(I.regf, w), rmop_gpr(isreg, rmreg, m, w)}; return done("imul", w);
    }
    if (b == 0xb6 || b == 0xb7) {
      if (!no_simd_prefix()) return false;
      if (!modrm(isreg, rmreg, m)) return false;
      int w = opsz(); int sw = b == 0xb6 ? 8 : 16;
      I.ops = {gpr(I.regf, w), rmop_gpr(isreg, rmreg, m, sw)}; return done("movzx", w);
    }
    // ---- MMX / SSE ----
    int pp = simd_pp(); if (pp < 0) return fail("conflicting SIMD prefixes");
    if (b == 0x6e || b == 0x7e) {
      if (pp == 2 && b == 0x7e) { // movq xmm, xmm/m64
        if (!modrm(isreg, rmreg, m)) return false;
        I.ops = {vreg(K_XMM, I.regf), rmop_vec(isreg, rmreg, m, K_XMM, 64)}; return done("movq", 128);
      }
      if (pp > 1) return fail("bad prefix for 6e/7e");
      if (!modrm(isreg, rmreg, m)) return false;
      Kind vk = pp == 1 ? K_XMM : K_MMX; int gw = W ? 64 : 32;
      Opd v = vreg(vk, I.regf), e = rmop_gpr(isreg, rmreg, m, gw);
      if (b == 0x6e) I.ops = {v, e}; else I.ops = {e, v};
      return done(W ? "movq" : "movd", gw);
    }
    if (b == 0xd6) {
      if (pp != 1) return fail("bad prefix for d6");
      if (!modrm(isreg, rmreg, m)) return false;
      I.ops = {rmop_vec(isreg, rmreg, m, K_XMM, 64), vreg(K_XMM, I.regf)}; return done("movq", 128);
    }
    if (b == 0xe7) {
      if (pp != 0) return fail("bad prefix for e7");
      if (!modrm(isreg, rmreg, m)) return false;
      if (isreg) return fail("movntq with register");
      I.ops = {rmop_vec(false, 0, m, K_MMX, 64), vreg(K_MMX, I.regf)}; return done("movntq", 64);
    }
    if (pop_name(b)) {
      if (pp > 1) return fail("bad prefix for packed op");
      if (!modrm(isreg, rmreg, m)) return false;
      Kind vk = pp == 1 ? K_XMM : K_MMX;
      I.ops = {vreg(vk, I.regf), rmop_vec(isreg, rmreg, m, vk, pp == 1 ? 128 : 64)};
      return done(pop_name(b), pp == 1 ? 128 : 64);
    }
    if (b == 0x6c || b == 0x5e || b == 0x59) {
      if (pp != 1) return fail("bad prefix");
      if (!modrm(isreg, rmreg, m)) return false;
      I.ops = {vreg(K_XMM, I.regf), rmop_vec(isreg, rmreg, m, K_XMM, 128)};
      return done(b == 0x6c ? "punpcklqdq" : b == 0x5e ? "divpd" : "mulpd", 128);
    }
    if (b == 0xe6) {
      if (pp != 2 && pp != 3) return fail("bad prefix for e6");
      if (!modrm(isreg, rmreg, m)) return false;
      I.ops = {vreg(K_XMM, I.regf), rmop_vec(isreg, rmreg, m, K_XMM, pp == 2 ? 64 : 128)};
      return done(pp == 2 ? "cvtdq2pd" : "cvtpd2dq", 128);
    }
    if (b == 0x73) {
      if (pp != 1) return fail("bad prefix for 73");
      if (!modrm(isreg, rmreg, m)) return false;
      if (!isreg || (I.regf & 7) != 3) return fail("0f 73 form");
      if (!imm(1, raw)) return false;
      I.ops = {vreg(K_XMM, rmreg), immop(raw, 8, 8, false)}; return done("psrldq", 128);
    }
    return fail("unsupported 0f opcode");
  }

  bool decode_0f38(uint8_t b) {
    bool isreg; int rmreg; Mem m;
    int pp = simd_pp(); if (pp < 0) return fail("conflicting SIMD prefixes");
    if (b == 0x0b) {
      if (pp > 1) return fail("bad prefix");
      if (!modrm(isreg, rmreg, m)) return false;
      Kind vk = pp == 1 ? K_XMM : K_MMX;
      I.ops = {vreg(vk, I.regf), rmop_vec(isreg, rmreg, m, vk, pp == 1 ? 128 : 64)}; return done("pmulhrsw", pp == 1 ? 128 : 64);
    }
    if (b == 0x40 || b == 0x28) {
      if (pp != 1) return fail("bad prefix");
      if (!modrm(isreg, rmreg, m)) return false;
      I.ops = {vreg(K_XMM, I.regf), rmop_vec(isreg, rmreg, m, K_XMM, 128)}; return done(b == 0x40 ? "pmulld" : "pmuldq", 128);
    }
    if (b == 0x2a) {
      if (pp != 1) return fail("bad prefix");
      if (!modrm(isreg, rmreg, m)) return false;
      if (isreg) return fail("movntdqa with register");
      I.ops = {vreg(K_XMM, I.regf), rmop_vec(false, 0, m, K_XMM, 128)}; return done("movntdqa", 128);
    }
    if (b == 0xf6) {
      if (pp != 1 && pp != 2) return fail("bad prefix for 0f38 f6");
      if (!modrm(isreg, rmreg, m)) return false;
      int w = W ? 64 : 32;
      I.ops = {gpr(I.regf, w), rmop_gpr(isreg, rmreg, m, w)}; return done(pp == 1 ? "adcx" : "adox", w);
    }
    return fail("unsupported 0f38 opcode");
  }

  bool decode_vex(uint8_t first) {
    I.vex = true;
    uint8_t b1, b2;
    if (!u8(b1)) return false;
    int mm, pp, L, vv;
    if (first == 0xc5) {
      I.vexbytes = 2;
      R = !(b1 & 0x80); X = false; B = false; W = false; mm = 1;
      vv = (~(b1 >> 3)) & 15; L = (b1 >> 2) & 1; pp = b1 & 3;
    } else {
      I.vexbytes = 3;
      if (!u8(b2)) return false;
      R = !(b1 & 0x80); X = !(b1 & 0x40); B = !(b1 & 0x20); mm = b1 & 31;
      W = b2 & 0x80; vv = (~(b2 >> 3)) & 15; L = (b2 >> 2) & 1; pp = b2 & 3;
    }
    I.vexL = L; I.vexW = W; I.vexpp = pp; I.vexmap = mm; I.vvvv = vv; I.map = mm;
    uint8_t b; if (!u8(b)) return false; I.opcode = b;
    bool isreg; int rmreg; Mem m; uint64_t raw;
    // pp: 0 none, 1 66, 2 F3, 3 F2
    if (mm == 1) {
      if (pp == 1) {
        const char *nm = nullptr; bool pd = false;
        switch (b) { case 0x58: nm = "vaddpd"; pd = true; break; case 0x59: nm = "vmulpd"; pd = true; break; case 0x5c: nm = "vsubpd"; pd = true; break; case 0x5e: nm = "vdivpd"; pd = true; break; }
        std::string nms;
        if (!nm && pop_name(b)) { nms = std::string("v") + pop_name(b); }
        if (nm || !nms.empty()) {
          (void)pd;
          if (!modrm(isreg, rmreg, m)) return false;
          Kind vk = L ? K_YMM : K_XMM; int vl = L ? 256 : 128;
          I.ops = {vreg(vk, I.regf), vreg(vk, vv), rmop_vec(isreg, rmreg, m, vk, vl)};
          return done(nm ? std::string(nm) : nms, vl);
        }
        if (b == 0x10 || b == 0x11) {
          if (vv != 0) return fail("vmovupd vvvv != 1111b");
          if (!modrm(isreg, rmreg, m)) return false;
          Kind vk = L ? K_YMM : K_XMM; int vl = L ? 256 : 128;
          Opd r = vreg(vk, I.regf), e = rmop_vec(isreg, rmreg, m, vk, vl);
          if (b == 0x10) I.ops = {r, e}; else I.ops = {e, r};
          return done("vmovupd", vl);
        }
      }
      if (pp == 2 && (b == 0x6f || b == 0x7f)) {
        if (vv != 0) return fail("vmovdqu vvvv != 1111b");
        if (!modrm(isreg, rmreg, m)) return false;
        Kind vk = L ? K_YMM : K_XMM; int vl = L ? 256 : 128;
        Opd r = vreg(vk, I.regf), e = rmop_vec(isreg, rmreg, m, vk, vl);
        if (b == 0x6f) I.ops = {r, e}; else I.ops = {e, r};
        return done("vmovdqu", vl);
      }
      return fail("unsupported VEX.0F opcode");
    }
    if (mm == 2) {
      if (pp == 1 && (b == 0x28 || b == 0x0b || b == 0x40)) {
        if (!modrm(isreg, rmreg, m)) return false;
        Kind vk = L ? K_YMM : K_XMM; int vl = L ? 256 : 128;
        I.ops = {vreg(vk, I.regf), vreg(vk, vv), rmop_vec(isreg, rmreg, m, vk, vl)};
        return done(b == 0x28 ? "vpmuldq" : b == 0x0b ? "vpmulhrsw" : "vpmulld", vl);
      }
      if (pp == 1 && b == 0x36) {
        if (!L || W) return fail("vpermd requires L=1 W=0");
        if (!modrm(isreg, rmreg, m)) return false;
        I.ops = {vreg(K_YMM, I.regf), vreg(K_YMM, vv), rmop_vec(isreg, rmreg, m, K_YMM, 256)}; return done("vpermd", 256);
      }
      if (b == 0xf7 || b == 0xf5) {
        if (L) return fail("BMI2 requires L=0");
        const char *nm = nullptr;
        if (b == 0xf7) nm = pp == 0 ? "bextr" : pp == 2 ? "sarx" : pp == 1 ? "shlx" : "shrx";
        else if (pp == 0) nm = "bzhi";
        if (!nm) return fail("unsupported VEX.0F38 f5 prefix");
        if (!modrm(isreg, rmreg, m)) return false;
        int w = W ? 64 : 32;
        I.ops = {gpr(I.regf, w), rmop_gpr(isreg, rmreg, m, w), gpr(vv, w)}; return done(nm, w);
      }
      if (b == 0xf6 && pp == 3) {
        if (L) return fail("mulx requires L=0");
        if (!modrm(isreg, rmreg, m)) return false;
        int w = W ? 64 : 32;
        I.ops = {gpr(I.regf, w), gpr(vv, w), rmop_gpr(isreg, rmreg, m, w)}; return done("mulx", w);
      }
      return fail("unsupported VEX.0F38 opcode");
    }
    if (mm == 3) {
      if (pp == 1 && (b == 0x46 || b == 0x06)) {
        if (!L || W) return fail("vperm2x128 requires L=1 W=0");
        if (!modrm(isreg, rmreg, m)) return false;
        if (!imm(1, raw)) return false;
        I.ops = {vreg(K_YMM, I.regf), vreg(K_YMM, vv), rmop_vec(isreg, rmreg, m, K_YMM, 256), immop(raw, 8, 8, false)};
        return done(b == 0x46 ? "vperm2i128" : "vperm2f128", 256);
      }
      if (pp == 3 && b == 0xf0) {
        if (L) return fail("rorx requires L=0");
        if (vv != 0) return fail("rorx vvvv != 1111b");
        if (!modrm(isreg, rmreg, m)) return false;
        if (!imm(1, raw)) return false;
        int w = W ? 64 : 32;
        I.ops = {gpr(I.regf, w), rmop_gpr(isreg, rmreg, m, w), immop(raw, 8, 8, false)}; return done("rorx", w);
      }
      return fail("unsupported VEX.0F3A opcode");
    }
    return fail("unsupported VEX map");
  }
};

// Decode one instruction from [p, p+n).  On success Insn.len is its length.
static inline Insn decode(const uint8_t *p, size_t n) {
  Decoder d; d.p = p; d.n = n > 15 ? 15 : n;
  d.decode();
  if (d.I.ok) {
    // 66 / F2 / F3 prefixes that are not part of the operation's definition are tolerated
    // only on NOPs (multi-byte NOP spellings); elsewhere redundant prefixes are reported.
    if (d.I.n66 > 1 && !d.I.isnop) { d.I.ok = false; d.I.err = "repeated 66 prefix"; }
    if (d.I.n67 > 1) { d.I.ok = false; d.I.err = "repeated 67 prefix"; }
  }
  return d.I;
}

// ---------- printing ----------
static inline std::string regname(const Opd &o) {
  static const char *r64[16] = {"rax","rcx","rdx","rbx","rsp","rbp","rsi","rdi","r8","r9","r10","r11","r12","r13","r14","r15"};
  static const char *r32[16] = {"eax","ecx","edx","ebx","esp","ebp","esi","edi","r8d","r9d","r10d","r11d","r12d","r13d","r14d","r15d"};
  static const char *r16[16] = {"ax","cx","dx","bx","sp","bp","si","di","r8w","r9w","r10w","r11w","r12w","r13w","r14w","r15w"};
  static const char *r8[16] = {"al","cl","dl","bl","spl","bpl","sil","dil","r8b","r9b","r10b","r11b","r12b","r13b","r14b","r15b"};
  static const char *h8[4] = {"ah","ch","dh","bh"};
  char buf[16];
  switch (o.k) {
    case K_GPR:
      if (o.high8) return h8[o.reg & 3];
      return o.width == 64 ? r64[o.reg & 15] : o.width == 32 ? r32[o.reg & 15] : o.width == 16 ? r16[o.reg & 15] : r8[o.reg & 15];
    case K_MMX: snprintf(buf, sizeof buf, "mm%d", o.reg); return buf;
    case K_XMM: snprintf(buf, sizeof buf, "xmm%d", o.reg); return buf;
    case K_YMM: snprintf(buf, sizeof buf, "ymm%d", o.reg); return buf;
    default: return "?";
  }
}
static inline std::string memstr(const Mem &m) {
  std::string s;
  const char *kw = m.width == 8 ? "byte " : m.width == 16 ? "word " : m.width == 32 ? "dword " : m.width == 64 ? "qword " : m.width == 128 ? "oword " : m.width == 256 ? "yword " : "";
  s += kw; s += "[";
  bool any = false;
  Opd r; r.k = K_GPR; r.width = m.asize;
  if (m.base == 16) { s += "rip"; any = true; }
  else if (m.base >= 0) { r.reg = m.base; s += regname(r); any = true; }
  if (m.index >= 0) { r.reg = m.index; if (any) s += "+"; s += regname(r); s += "*" + std::to_string(m.scale); any = true; }
  if (m.disp || !any) { char b[40]; if (m.disp < 0) snprintf(b, sizeof b, "-0x%llx", (unsigned long long)(-m.disp)); else snprintf(b, sizeof b, "%s0x%llx", any ? "+" : "", (unsigned long long)m.disp); s += b; }
  s += "]"; return s;
}
static inline std::string opdstr(const Opd &o) {
  char b[40];
  switch (o.k) {
    case K_MEM: return memstr(o.mem);
    case K_IMM: snprintf(b, sizeof b, "0x%llx", (unsigned long long)o.imm); return b;
    case K_REL: snprintf(b, sizeof b, "rel%d:%lld", o.width, (long long)o.imm); return b;
    default: return regname(o);
  }
}
static inline std::string to_string(const Insn &I) {
  if (!I.ok) return "<undecodable: " + I.err + ">";
  std::string s = I.op;
  for (size_t k = 0; k < I.ops.size(); k++) { s += k ? ", " : " "; s += opdstr(I.ops[k]); }
  return s;
}
static inline std::string hex(const uint8_t *p, size_t n) {
  std::string s; char b[4];
  for (size_t k = 0; k < n; k++) { snprintf(b, sizeof b, "%02x", p[k]); if (k) s += ' '; s += b; }
  return s;
}

// ---------- semantic comparison ----------
// effective address as a linear form: coefficient per register (0..15, 16=rip) + disp, plus address size
struct Lin { int64_t c[17]; int64_t disp; int asize; };
static inline Lin lin(const Mem &m) {
  Lin l; memset(&l, 0, sizeof l); l.disp = m.disp; l.asize = m.asize;
  if (m.base >= 0) l.c[m.base] += 1;
  if (m.index >= 0) l.c[m.index] += m.scale;
  if (m.asize == 32) l.disp = (int64_t)(int32_t)l.disp;
  return l;
}
static inline bool same_addr(const Mem &a, const Mem &b) {
  Lin x = lin(a), y = lin(b);
  if (x.asize != y.asize || x.disp != y.disp) return false;
  for (int k = 0; k < 17; k++) if (x.c[k] != y.c[k]) return false;
  return true;
}
// literal comparison (used where STRICT demands the written fields)
static inline bool same_addr_literal(const Mem &a, const Mem &b) {
  return a.base == b.base && a.index == b.index && (a.index < 0 || a.scale == b.scale) && a.disp == b.disp && a.asize == b.asize;
}
static inline bool same_opd(const Opd &a, const Opd &b, std::string *why = nullptr) {
  auto no = [&](const char *w) { if (why) *why = w; return false; };
  if (a.k != b.k) return no("operand kind");
  switch (a.k) {
    case K_GPR: if (a.width != b.width) return no("register width"); if (a.reg != b.reg || a.high8 != b.high8) return no("register number"); return true;
    case K_MMX: case K_XMM: case K_YMM: if (a.reg != b.reg) return no("vector register number"); return true;
    case K_MEM: if (a.mem.width != b.mem.width) return no("memory access width"); if (a.mem.asize != b.mem.asize) return no("address size"); if (!same_addr(a.mem, b.mem)) return no("effective address"); return true;
    case K_IMM: if (a.imm != b.imm) return no("immediate value"); return true;
    case K_REL: if (a.imm != b.imm) return no("branch displacement"); return true;
  }
  return false;
}
static inline bool symmetric_op(const std::string &op) { return op == "xchg" || op == "test"; }
static inline bool same_insn(const Insn &want, const Insn &got, std::string *why = nullptr) {
  auto no = [&](const std::string &w) { if (why) *why = w; return false; };
  if (!got.ok) return no("undecodable");
  // 90 with a 66 or REX.W prefix is architecturally XCHG AX,AX / XCHG RAX,RAX (no effect, no zero extension);
  // only the 32-bit XCHG EAX,EAX differs from NOP in 64-bit mode (it clears the upper half of RAX)
  if (want.op == "xchg" && got.op == "nop" && got.map == 0 && got.opcode == 0x90 && want.ops.size() == 2 &&
      want.ops[0].k == K_GPR && want.ops[1].k == K_GPR && want.ops[0].reg == 0 && want.ops[1].reg == 0 &&
      want.ops[0].width == want.ops[1].width && (want.ops[0].width == 16 || want.ops[0].width == 64)) {
    bool w16 = got.n66 > 0 && !(got.rexbits & 8), w64 = (got.rexbits & 8) != 0;
    if ((want.ops[0].width == 16 && w16) || (want.ops[0].width == 64 && w64)) return true;
  }
  if (want.op != got.op) return no("operation");
  if (want.ops.size() != got.ops.size()) return no("operand count");
  if (want.opsize && got.opsize && want.opsize != got.opsize) return no("operand size");
  std::string w1;
  bool eq = true;
  for (size_t k = 0; k < want.ops.size() && eq; k++) if (!same_opd(want.ops[k], got.ops[k], &w1)) eq = false;
  if (eq) return true;
  if (symmetric_op(want.op) && want.ops.size() == 2 && want.ops[1].k != K_IMM) {
    if (same_opd(want.ops[0], got.ops[1]) && same_opd(want.ops[1], got.ops[0])) return true;
  }
  return no(w1);
}

} // namespace x86
