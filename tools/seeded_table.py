#!/usr/bin/env python3
"""Rewrites the table of seeded changes in DESIGN.md (between the SEEDED-TABLE markers) from seeded/*/meta.json and,
if given, the matrix file written by tools/matrix.sh."""
import glob, json, os, re, sys
ROOT = os.path.dirname(os.path.dirname(os.path.abspath(__file__)))
matrix = {}
if len(sys.argv) > 1 and os.path.exists(sys.argv[1]):
    for l in open(sys.argv[1]):
        f = l.split()
        if len(f) >= 4 and f[2].startswith("exit="):
            matrix.setdefault(f[0], {})[f[1]] = (int(f[2][5:]), int(f[3]))
# the last column of the table as it stands (a matrix run over the own property only does not replace what wider runs found)
prev_also = {}
try:
    cur = open(os.path.join(ROOT, "DESIGN.md")).read(); cur = cur[cur.index("<!-- SEEDED-TABLE-BEGIN -->"):cur.index("<!-- SEEDED-TABLE-END -->")]
    for l in cur.splitlines():
        c = [x.strip() for x in l.split("|")]
        if len(c) >= 7 and re.match(r"C\d\d-[a-z]$", c[1]): prev_also[c[1]] = c[5]
except Exception:
    pass
rows = []
for d in sorted(x for x in glob.glob(os.path.join(ROOT, "seeded", "*")) if os.path.isdir(x)):
    name = os.path.basename(d)
    m = json.load(open(os.path.join(d, "meta.json")))
    own = m.get("checks", {}).get(m["property"] + ":quick", {})
    others = sorted(c for c, (rc, nv) in matrix.get(name, {}).items() if rc == 1 and nv > 0 and c != m["property"])
    incon = sorted(c for c, (rc, nv) in matrix.get(name, {}).items() if rc == 2)
    summ = (m.get("summary") or "").replace("|", "/").replace("\n", " ")
    if len(summ) > 230:
        summ = summ[:227] + "..."
    neutral = m.get("status") == "neutralised"
    mo = matrix.get(name, {}).get(m["property"])
    if mo is not None: own = {"detected": mo[0] == 1 and mo[1] > 0, "wall_s": own.get("wall_s", 0), "exit": mo[0]}
    owncell = "n/a (no longer a violation: see status_note)" if neutral else "not demanded (section 10)" if m.get("status") == "not-demanded" else (("yes" + (" (%ss)" % int(own.get("wall_s", 0)) if own.get("wall_s") else "")) if own.get("detected") else "NO")
    fr = m.get("first_run"); first = "-" if fr is None else ("yes" if fr.get("detected") else "no")
    also = ", ".join(others) + ((" (inconclusive: " + ", ".join(incon) + ")") if incon else "")
    if not also and len(matrix.get(name, {})) <= 1: also = prev_also.get(name, "")
    rows.append("| %s | %s | %s | %s | %s |" % (name, summ, first, owncell, also))
table = "| change | what it does | caught at first run (wave 3: before the change was looked at) | caught by its own property's quick check now | also caught by (columns of tools/matrix.sh) |\n|---|---|---|---|---|\n" + "\n".join(rows) + "\n"
p = os.path.join(ROOT, "DESIGN.md")
s = open(p).read()
a, b = "<!-- SEEDED-TABLE-BEGIN -->", "<!-- SEEDED-TABLE-END -->"
if a in s:
    s = s[:s.index(a) + len(a)] + "\n" + table + s[s.index(b):]
    open(p, "w").write(s)
print(len(rows), "rows")
