#!/usr/bin/env python3
"""(Re)generates the committed seed corpus and dictionary of the C09 fuzzer from /repo/test/*.asm and the mnemonic table."""
import glob, os, re, hashlib
ROOT = os.path.dirname(os.path.dirname(os.path.abspath(__file__)))
out = os.path.join(ROOT, "corpus", "c09"); os.makedirs(out, exist_ok=True)
lines = []
for f in sorted(glob.glob("/repo/test/*.asm")):
    ls = [l.rstrip("\n") for l in open(f, errors="replace") if l.strip() and not l.startswith((";", "SECTION", "GLOBAL", "section", "global")) and ":" not in l]
    lines += ls[:3]
seen = set(); n = 0
for i, l in enumerate(lines):
    if len(l) > 90 or l in seen: continue
    seen.add(l)
    hdr = bytes([(i * 7) % 256, (i * 13) % 256, (i * 5) % 256])
    data = hdr + l.encode("latin1") + (b"\n" if i % 2 else b"")
    open(os.path.join(out, "seed-" + hashlib.sha1(data).hexdigest()[:12]), "wb").write(data); n += 1
    if n >= 160: break
# a few multi-line programs
progs = ["mov rax, 0x0\nadd rax, 0x2; adds two\nsub rax, 0x1\nret", "label:\n  jmp short 5\n\n%define X\nvpaddq ymm1, ymm2, [rax+r9*2]\n", "SECTION .text\nGLOBAL f\nf:\nlea r15, [2*rax]\r\nlea r15, [rax+rsp]\r\n"]
for i, p in enumerate(progs):
    for hdr in (bytes([11, 0, 9]), bytes([0x1b, 0x13, 9]), bytes([0x2b, 0x6b, 3])):
        d = hdr + p.encode(); open(os.path.join(out, "prog-" + hashlib.sha1(d).hexdigest()[:12]), "wb").write(d)
# debug listing on / second call on the same instance, chunk fitting from a non-zero offset in a small caller buffer
for i, p in enumerate(["mov rax, 0x1122334455667788\nadd rcx, 5\nvpaddq ymm1, ymm2, [rax+r9*2]\n", "nop\nmov byte [rsp+rax], 1\nret\n"]):
    for hdr in (bytes([0x4b, 0x5a, 9]), bytes([0xcb, 0x5a, 9]), bytes([0xdb, 0x4d, 5]), bytes([0x8b, 0x0c, 0])):
        d = hdr + p.encode(); open(os.path.join(out, "dbg-" + hashlib.sha1(d).hexdigest()[:12]), "wb").write(d)
# lines whose filtered text ends at the edge of the 100-byte line window
for i, (head, tail) in enumerate([("mov rax, 0x", "5"), ("add qword [rbx+rcx*8+0x", "10], 7"), ("mov r", ",[-"), ("lea rax, [rbx+0x", "]\r\n")]):
    for total in (98, 99, 100):
        flt = len(head.replace(" ", "")) + 1 + len(tail.replace(" ", "").replace("\r\n", ""))
        l = head + "0" * (total - flt) + tail
        d = bytes([11 + 16 * (i % 2), 0x0c, 9]) + l.encode(); open(os.path.join(out, "edge-" + hashlib.sha1(d).hexdigest()[:12]), "wb").write(d)
toks = set()
src = open("/repo/src/instructions.c").read()
for m in re.findall(r'\{"([a-z0-9]+)",', src): toks.add(m)
for r in "rax rcx rdx rbx rsp rbp rsi rdi eax ecx esp ebp ax cx sp al cl ah ch spl bpl sil dil r8 r9 r12 r13 r15 r8d r12d r15d r8w r15w r8b r15b mm0 mm7 xmm0 xmm8 xmm15 ymm0 ymm8 ymm15".split(): toks.add(r)
for k in ["byte", "word", "dword", "qword", "short", "long", "far", "[", "]", "*", "+", "-", ",", ";", ":", "%", "0x", "\\x0a", "\\x0d\\x0a", " ", "\\x09", "*1", "*2", "*4", "*8", "*3", "0x7f", "0x80", "0xffffffff", "0x100000000", "0xffffffffffffffff", "-0x80000000", "section", "global", "0x0000000000000001"]: toks.add(k)
with open(os.path.join(ROOT, "corpus", "c09.dict"), "w") as f:
    for t in sorted(toks): f.write('"%s"\n' % t.replace('"', '\\"'))
print(n + 9, "seeds;", len(toks), "dictionary tokens")
