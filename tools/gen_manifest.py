#!/usr/bin/env python3
"""Regenerates /verif/MANIFEST.json from driver/props.py (the single source of per-property metadata)."""
import json, os, sys
ROOT = os.path.dirname(os.path.dirname(os.path.abspath(__file__)))
sys.path.insert(0, os.path.join(ROOT, "driver"))
import props
allp = [json.loads(l)["id"] for l in open(os.path.join(ROOT, "properties.jsonl"))]
checks = []
for pid in allp:
    sp = props.PROPS.get(pid)
    if not sp or not sp.get("registered"):
        continue
    checks.append({
        "property_id": pid,
        "quick_cmd": "./check.sh %s quick" % pid,
        "thorough_cmd": "./check.sh %s thorough" % pid,
        "evidence_file": "/verif/evidence/%s.json" % pid,
        "replay_cmd_template": "./check.sh replay %s {path}" % pid,
        "engine": sp.get("engine", "alverif"),
        "level_claimed": {"category": sp["level"], "text": sp["level_text"], "design_ref": sp.get("design_ref", "DESIGN.md section 3, " + pid)},
        "level_note": sp["level_note"],
        "technique": sp["technique"],
    })
na = [{"property_id": pid, "reason": props.NOT_APPLICABLE.get(pid, "check not built yet (construction in progress; see DESIGN.md section 5)")}
      for pid in allp if not (props.PROPS.get(pid) or {}).get("registered")]
m = {
    "version": 1,
    "setup_cmd": "python3 driver/build.py engine && python3 tools/selftest.py 1 6",
    "hooks": {"guard": "ASSEMBLYLINE_VERIF", "enable": "the checks compile /repo/src/*.c themselves (driver/build.py) with -DASSEMBLYLINE_VERIF; no guarded hook exists in /repo at present",
              "baseline_off_cmd": "/verif/tools/baseline.sh", "source_commits": [], "add_only": True},
    "engines": [{"name": "alverif", "path": "/verif/engine", "serves_properties": [c["property_id"] for c in checks if c["engine"] == "alverif"],
                 "kind_free_text": "C++17 generators/enumerators + reference x86-64 decoder oracle + forked workers, linked against an ASan/UBSan build of /repo/src; rapidcheck for command sequences"}],
    "checks": checks,
    "notes": "All checks rebuild the library from /repo's working tree. Exit 0 = held (KNOWN-FINDING lines for listed findings), 1 = VIOLATION, 2 = inconclusive (machinery problem, no verdict). Fixed and open findings: /verif/known_findings.txt.",
    "not_applicable": na,
}
json.dump(m, open(os.path.join(ROOT, "MANIFEST.json"), "w"), indent=1)
print("checks:", [c["property_id"] for c in checks], "not_applicable:", [n["property_id"] for n in na])
