#!/bin/bash
# Runs the repository's own suite (guard OFF: the project's build never defines ASSEMBLYLINE_VERIF)
# and checks that every test in BASELINE.json stable_pass still passes.
cd /repo || exit 2
make check -j8 >/tmp/al_baseline.log 2>&1
python3 - <<'PY'
import json,glob,sys
b=json.load(open('/root/.vp/BASELINE.json'))
want=set(b['stable_pass'])
got=set()
for f in glob.glob('/repo/test/**/*.trs',recursive=True):
    s=open(f).read()
    if ':test-result: PASS' in s or ':global-test-result: PASS' in s:
        n=f[len('/repo/'):-4]
        got.add(n); got.add(n+'.asm')
miss=sorted(want-got)
print("baseline: %d/%d stable tests pass"%(len(want)-len(miss),len(want)))
if miss:
    print("MISSING:",miss); sys.exit(1)
PY
