#!/bin/bash
# mk_worktree.sh <dir>: scratch git worktree of /repo's HEAD, configured and built, with the suite run once
set -e
d=$1
git -C /repo worktree add -q "$d" HEAD
cd "$d"
./autogen.sh >/dev/null 2>&1
./configure >/dev/null 2>&1
make -j8 >/dev/null 2>&1
make check -j8 2>&1 | grep -E "^# (PASS|FAIL)" || true
