#!/bin/bash
# real_suite.sh <tree>: the nasm-comparison tests of the repository in a private mount namespace whose /dev/stdout is repaired
# before every test.  (nasm removes its listing file - here /dev/stdout - when it reports an error; as root that deletes the
# symlink, and from then on `asmline -P /dev/stdout` writes a regular file and both sides of the comparison are empty: the test
# passes vacuously.  `make check` of the repository is exposed to that; this script is not.)
if [ -z "$REAL_SUITE_INNER" ]; then exec unshare -m env REAL_SUITE_INNER=1 bash "$0" "$@"; fi
t=$1; cd "$t" || exit 2
d=$(mktemp -d /tmp/pdev.XXXXXX)
for n in null zero urandom random full tty; do [ -e /dev/$n ] && { touch $d/$n; mount --bind /dev/$n $d/$n; }; done
ln -s /proc/self/fd $d/fd; ln -s /proc/self/fd/0 $d/stdin; ln -s /proc/self/fd/1 $d/stdout; ln -s /proc/self/fd/2 $d/stderr; mkdir $d/shm
mount --bind $d /dev
for f in test/*.asm; do
  [ -L /dev/stdout ] || { rm -f /dev/stdout; ln -s /proc/self/fd/1 /dev/stdout; }
  if bash test/al_nasm_compare.sh "$f" >/dev/null 2>&1; then echo "PASS $f"; else echo "FAIL $f"; fi
done
