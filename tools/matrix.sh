#!/bin/bash
# matrix.sh: runs every quick check (except the slow C09 unless asked) against every seeded change, in an isolated copy
# of the repository (VERIF_REPO), and writes one line per (change, check) to the given file.  Meant for `vp run --with-repo`.
#   usage: tools/matrix.sh <repo-copy> <outfile> [checks...]
repo=$1; out=$2; shift 2
checks=${@:-C01 C02 C03 C04 C05 C06 C07 C08 C10 C11 C12 C13 C14 C15 C16 C17 C18 C19 C20}
here=$(cd "$(dirname "$0")/.." && pwd)
cd "$here"
: > "$out"
for d in seeded/*/; do
  name=$(basename $d)
  git -C "$repo" checkout -q -- . && git -C "$repo" apply "$here/$d/patch.diff" || { echo "$name APPLY-FAILED" >> "$out"; continue; }
  for c in $checks; do
    o=$(VERIF_REPO="$repo" timeout 1200 ./check.sh $c quick 2>&1); rc=$?
    echo "$name $c exit=$rc $(echo "$o" | grep -c '^VIOLATION') violations" >> "$out"
  done
  git -C "$repo" checkout -q -- .
done
echo DONE >> "$out"
