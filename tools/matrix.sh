#!/bin/bash
# matrix.sh: runs every quick check (except the slow C09 unless asked) against every seeded change, in an isolated copy
# of the repository (VERIF_REPO), and writes one line per (change, check) to the given file.  Meant for `vp run --with-repo`.
#   usage: tools/matrix.sh <repo-copy> <outfile> [checks...]
repo=$1; out=$2; shift 2
# default columns: the change's own property plus the checks that take seconds (the whole row then takes about two minutes)
fast="C01 C03 C04 C05 C06 C07 C10 C11 C12 C13 C14 C16 C17 C19"
checks=${@:-OWN $fast}
here=$(cd "$(dirname "$0")/.." && pwd)
cd "$here"
: > "$out"
for d in seeded/*/; do
  name=$(basename $d)
  if [ -n "$ROWS" ] && ! [[ $name =~ $ROWS ]]; then continue; fi   # ROWS: regular expression selecting the changes (rows) to run
  git -C "$repo" checkout -q -- . && git -C "$repo" apply "$here/$d/patch.diff" || { echo "$name APPLY-FAILED" >> "$out"; continue; }
  own=${name%%-*}
  for c in $checks; do
    if [ "$c" = OWN ]; then case " $checks " in *" $own "*) continue;; esac; c=$own; fi
    grep -q '"status": "neutralised"' "$here/$d/meta.json" && { echo "$name $c neutralised" >> "$out"; continue; }
    o=$(VERIF_REPO="$repo" timeout 1200 ./check.sh $c quick 2>&1); rc=$?
    echo "$name $c exit=$rc $(echo "$o" | grep -c '^VIOLATION') violations" >> "$out"
  done
  git -C "$repo" checkout -q -- .
done
echo DONE >> "$out"
