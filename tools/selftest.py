#!/usr/bin/env python3
"""Differential self-test of the oracle (reference decoder + form table + comparator) against nasm and objdump.
A disagreement here is a bug in the verification machinery, not in AssemblyLine.
usage: tools/selftest.py [seed] [per_form]"""
import os, re, subprocess, sys, tempfile
ROOT = os.path.dirname(os.path.dirname(os.path.abspath(__file__)))
sys.path.insert(0, os.path.join(ROOT, "driver"))
import build
seed = int(sys.argv[1]) if len(sys.argv) > 1 else 1
per = int(sys.argv[2]) if len(sys.argv) > 2 else 4
if not (os.path.exists("/usr/bin/nasm")):
    print("selftest skipped: nasm not installed"); sys.exit(0)
exe = build.build_engine()
env = dict(os.environ, ASAN_OPTIONS="detect_leaks=0")
dump = subprocess.run([exe, "selftest-dump", str(seed), str(per)], stdout=subprocess.PIPE, text=True, env=env).stdout.splitlines()
cases = [l.split("\t") for l in dump if "\t" in l]
work = tempfile.mkdtemp(dir=os.path.join(ROOT, "build"))
rejected = []
active = list(range(len(cases)))
for attempt in range(6):
    src = os.path.join(work, "t.asm")
    with open(src, "w") as f:
        f.write("BITS 64\n")
        for i in active:
            f.write(cases[i][1] + "\n")
    r = subprocess.run(["nasm", "-w-all", "-f", "bin", src, "-o", os.path.join(work, "t.bin"), "-l", os.path.join(work, "t.lst")], stdout=subprocess.PIPE, stderr=subprocess.PIPE, text=True)
    if r.returncode == 0:
        break
    badlines = sorted(set(int(m.group(1)) for m in re.finditer(r":(\d+): error", r.stderr)))
    for ln in reversed(badlines):
        idx = active[ln - 2]
        rejected.append((cases[idx][1], [l for l in r.stderr.splitlines() if ":%d: error" % ln in l][0].split("error:")[-1].strip()))
        del active[ln - 2]
else:
    print("nasm keeps failing"); sys.exit(2)
# listing: bytes per source line
bytes_by_line = {}
for l in open(os.path.join(work, "t.lst"), errors="replace"):
    m = re.match(r"\s*(\d+) ([0-9A-F]{8}) ([0-9A-F]+)(-?)", l)
    if m:
        bytes_by_line.setdefault(int(m.group(1)), "")
        bytes_by_line[int(m.group(1))] += m.group(3)
chk = os.path.join(work, "check.txt")
stream = bytearray(); lens = []
with open(chk, "w") as f:
    for k, i in enumerate(active):
        hx = bytes_by_line.get(k + 2, "")
        if not hx:
            continue
        f.write(cases[i][0] + "\t" + hx.lower() + "\n"); stream += bytes.fromhex(hx); lens.append(len(hx) // 2)
r = subprocess.run([exe, "selftest-check", chk], stdout=subprocess.PIPE, text=True, env=env)
print(r.stdout.strip())
rc = r.returncode
if rejected:
    print("nasm rejected %d generated lines (generator emits something nasm does not accept):" % len(rejected))
    for t, e in rejected[:15]:
        print("   ", t, "->", e)
# objdump: instruction boundaries of the whole stream must agree with the reference decoder
binp = os.path.join(work, "all.bin"); open(binp, "wb").write(stream)
od = subprocess.run(["objdump", "-D", "-b", "binary", "-mi386:x86-64", "-M", "intel", binp], stdout=subprocess.PIPE, text=True).stdout
olens = []
for l in od.splitlines():
    m = re.match(r"\s*([0-9a-f]+):\t((?:[0-9a-f]{2} )+)\s*(\S.*)?$", l)
    if m:
        nb = len(m.group(2).split())
        if m.group(3) is None and olens:
            olens[-1] += nb      # continuation line of a long instruction
        else:
            olens.append(nb)
dec = subprocess.run([exe, "decode"] + ["%02x" % b for b in stream[:20000]], stdout=subprocess.PIPE, text=True, env=env)
print("objdump: %d instructions, nasm listing: %d instructions, boundaries %s" % (len(olens), len(lens), "agree" if olens == lens else "DIFFER"))
if olens != lens:
    for k, (a, b) in enumerate(zip(olens, lens)):
        if a != b:
            print("  first difference at instruction %d: objdump %d bytes, nasm %d bytes (%s)" % (k, a, b, cases[active[k]][1])); break
    rc = 1
import shutil; shutil.rmtree(work, ignore_errors=True)
sys.exit(rc)
