#!/usr/bin/env python3
"""Confirms a seeded breaking change and runs the checks against it.

  eval_seeded.py confirm <src_dir> <property> <name> <worktree>
      src_dir holds patch.diff, a demonstration and meta.json as written by an independent sub-agent.
      In the scratch <worktree> (built, outside /repo and /verif): apply the patch, rebuild, run the repository's suite
      (must still show the 96 baseline passes), run the demonstration (must fail), revert, rebuild, run it again (must
      pass).  On success the change is stored as /verif/seeded/<name>/.
  eval_seeded.py run <name> [tier] [properties...]
      git -C /repo apply the stored patch, run the property's check (or the listed ones), undo with
      git -C /repo checkout -- . , and record the outcome in /verif/seeded/<name>/meta.json.
"""
import json, os, re, shutil, subprocess, sys, time
ROOT = os.path.dirname(os.path.dirname(os.path.abspath(__file__)))
SEEDED = os.path.join(ROOT, "seeded")


def sh(cmd, cwd=None, timeout=3600):
    r = subprocess.run(cmd, shell=True, cwd=cwd, stdout=subprocess.PIPE, stderr=subprocess.STDOUT, text=True, errors="replace", timeout=timeout)
    return r.returncode, r.stdout


def suite_passes(wt):
    rc, out = sh("make -j8 2>&1 | tail -3; make check -j8 2>&1 | grep -E '^# (PASS|FAIL)'", cwd=wt)
    m = re.search(r"# PASS:\s+(\d+)", out)
    return (int(m.group(1)) if m else -1), out[-400:]


def real_passes(wt):
    """the nasm-comparison tests that really pass (tools/real_suite.sh keeps /dev/stdout intact, which `make check` run as root does not)"""
    got = set()
    for _ in range(3):   # a test counts as passing if it passes in one of three runs (the comparison pipes are sensitive to load)
        rc, out = sh("%s %s" % (os.path.join(ROOT, "tools", "real_suite.sh"), wt), timeout=900)
        now = set(l.split()[1] for l in out.splitlines() if l.startswith("PASS "))
        if now <= got and got: break
        got |= now
    return got


def run_demo(wt, src, meta):
    # copy the demonstration files into the worktree root and run the commands of meta["demo"]
    for f in os.listdir(src):
        if f not in ("patch.diff", "meta.json"):
            shutil.copy(os.path.join(src, f), os.path.join(wt, f))
    cmd = meta.get("demo", "")
    cmd = cmd.replace(src.rstrip("/") + "/", "./").replace(src.rstrip("/"), ".")
    rc, out = sh(cmd, cwd=wt, timeout=900)
    failed = rc != 0 or re.search(r"\bFAIL", out) is not None
    return failed, out[-600:]


def clean_demo(wt, src):
    for f in os.listdir(src):
        if f not in ("patch.diff", "meta.json"):
            try:
                os.unlink(os.path.join(wt, f))
            except OSError:
                pass
    for f in ("demo",):
        try:
            os.unlink(os.path.join(wt, f))
        except OSError:
            pass


def confirm(src, prop, name, wt):
    meta = json.load(open(os.path.join(src, "meta.json")))
    patch = os.path.join(src, "patch.diff")
    log = {}
    sh("git checkout -- . && git clean -fdq -e .libs", cwd=wt)
    rc, out = sh("git apply --check %s" % patch, cwd=wt)
    if rc:
        print("patch does not apply:", out); return False
    sh("git apply %s" % patch, cwd=wt)
    npass, tail = suite_passes(wt)
    log["suite_with_change"] = "# PASS: %d" % npass
    real_with = real_passes(wt)
    failed_with, out_with = run_demo(wt, src, meta)
    clean_demo(wt, src)
    sh("git checkout -- .", cwd=wt)
    npass0, _ = suite_passes(wt)
    real_ref = real_passes(wt)
    lost = sorted(real_ref - real_with)
    if lost:   # once more, to rule out load
        sh("git apply %s && make -j8" % patch, cwd=wt); lost = sorted(real_ref - real_passes(wt)); sh("git checkout -- . && make -j8", cwd=wt)
    log["real_suite"] = "%d of the %d nasm comparisons that pass on the unchanged tree (with /dev/stdout intact) still pass%s" % (len(real_ref) - len(lost), len(real_ref), (" ; lost: " + ", ".join(lost)) if lost else "")
    if lost:
        print("%s: REJECTED - the repository's own nasm comparison notices it when /dev/stdout is intact: %s" % (name, ", ".join(lost))); return False
    failed_without, out_without = run_demo(wt, src, meta)
    clean_demo(wt, src)
    ok = npass == 96 and npass0 == 96 and failed_with and not failed_without
    print("%s: suite with change: %d passes; demonstration with change: %s; without: %s -> %s" % (name, npass, "FAILS" if failed_with else "passes", "FAILS" if failed_without else "passes", "CONFIRMED" if ok else "REJECTED"))
    if not ok:
        print("  with   :", out_with[-300:].replace("\n", " | ")); print("  without:", out_without[-300:].replace("\n", " | "))
        return False
    dst = os.path.join(SEEDED, name)
    shutil.rmtree(dst, ignore_errors=True); os.makedirs(dst)
    for f in os.listdir(src):
        shutil.copy(os.path.join(src, f), os.path.join(dst, f))
    meta2 = {"property": prop, "summary": meta.get("summary"), "needs": meta.get("needs"), "demo": meta.get("demo"),
             "confirmed": {"where": "scratch worktree outside /repo and /verif (removed afterwards)", "suite_with_change": log["suite_with_change"], "suite_without_change": "# PASS: %d" % npass0, "real_suite": log.get("real_suite"),
                           "demonstration_with_change": "fails", "demonstration_without_change": "passes", "commands": ["git apply patch.diff", "make -j8 && make check -j8", meta.get("demo"), "git checkout -- ."]},
             "checks": {}}
    json.dump(meta2, open(os.path.join(dst, "meta.json"), "w"), indent=1)
    return True


def run(name, tier="quick", props=None):
    d = os.path.join(SEEDED, name)
    meta = json.load(open(os.path.join(d, "meta.json")))
    props = props or [meta["property"]]
    rc, out = sh("git -C /repo status --porcelain")
    if out.strip():
        print("/repo is not clean:", out); return 2
    rc, out = sh("git -C /repo apply %s" % os.path.join(d, "patch.diff"))
    if rc:
        print("cannot apply:", out); return 2
    res = {}
    try:
        for p in props:
            t0 = time.time()
            rc, out = sh("./check.sh %s %s" % (p, tier), cwd=ROOT, timeout=7200)
            viol = [l for l in out.splitlines() if l.startswith("VIOLATION")]
            res[p] = {"tier": tier, "exit": rc, "detected": rc == 1 and bool(viol), "wall_s": round(time.time() - t0, 1),
                      "first_report": next((l.strip()[:300] for l in out.splitlines() if l.startswith("  ")), "")}
            print("%s vs %s %s: exit %d, %s (%.0fs) %s" % (name, p, tier, rc, "DETECTED" if res[p]["detected"] else "not detected", time.time() - t0, res[p]["first_report"][:160]))
    finally:
        sh("git -C /repo checkout -- .")
    meta.setdefault("checks", {})
    for p, r in res.items():
        meta["checks"][p + ":" + tier] = r
    json.dump(meta, open(os.path.join(d, "meta.json"), "w"), indent=1)
    return 0


if __name__ == "__main__":
    if sys.argv[1] == "confirm":
        sys.exit(0 if confirm(sys.argv[2], sys.argv[3], sys.argv[4], sys.argv[5]) else 1)
    if sys.argv[1] == "run":
        sys.exit(run(sys.argv[2], sys.argv[3] if len(sys.argv) > 3 else "quick", sys.argv[4:] or None))
