#!/usr/bin/env python3
"""Re-creates stored seeded changes whose patch no longer applies after a repository fix touched the same lines.
  rebase_seeded.py <worktree>      (a scratch worktree of /repo outside /repo and /verif)
For each name in RECIPES the same semantic edit is made on the current HEAD (git apply --3way where that is clean, a
hand-written substitution otherwise), the change is confirmed again (suite 96 passes with it, the demonstration fails
with it and passes without it) and seeded/<name>/patch.diff is replaced (the original is kept as patch.orig.diff)."""
import json, os, re, shutil, subprocess, sys
sys.path.insert(0, os.path.dirname(os.path.abspath(__file__)))
import eval_seeded as E
ROOT = E.ROOT
HEAD_GROW = '''    int new_len = al->buffer_len + MEM_BUFFER;
    if (buf_pos + BUFFER_TOLERANCE > new_len)
      new_len = buf_pos + BUFFER_TOLERANCE;
    void *resize = mremap(al->buffer, al->buffer_len, new_len, MREMAP_MAYMOVE);
    // NOLINTNEXTLINE(performance-no-int-to-ptr)
    FAIL_SYS(resize == MAP_FAILED, "failed to resize buffer\\n", EXIT_FAILURE)
    al->buffer_len = new_len;
    al->buffer = (uint8_t *)resize;
'''
RECIPES = {
 "C08-f": "3way", "C11-e": "3way", "C05-g": "3way", "C03-e": "3way", "C05-f": "3way", "C16-a": "3way",
 "C06-b": [("src/parser.c", HEAD_GROW, '''    int new_len = al->buffer_len + MEM_BUFFER;
    if (buf_pos + BUFFER_TOLERANCE > new_len)
      new_len = buf_pos + BUFFER_TOLERANCE;
    // map a larger buffer and move the program over (growing an executable
    // mapping in place with mremap is refused on hardened kernels)
    void *resize = mmap(NULL, new_len, PROT_READ | PROT_WRITE | PROT_EXEC,
                        MAP_ANONYMOUS | MAP_PRIVATE, -1, 0);
    // NOLINTNEXTLINE(performance-no-int-to-ptr)
    FAIL_SYS(resize == MAP_FAILED, "failed to resize buffer\\n", EXIT_FAILURE)
    memcpy(resize, al->buffer, al->offset);
    munmap(al->buffer, al->buffer_len);
    al->buffer_len = new_len;
    al->buffer = (uint8_t *)resize;
''')],
 "C15-d": [("src/parser.c", '''  if (buf_pos + BUFFER_TOLERANCE > al->buffer_len) {
    FAIL_IF_VAR(al->external, "exceeded memory buffer: al->buffer_len = %d\\n",
                al->buffer_len)
''', '''  if (buf_pos + BUFFER_TOLERANCE > al->buffer_len) {
    // the buffer grows by at least one block at a time
    int old_len = al->buffer_len;
    al->buffer_len = old_len + MEM_BUFFER;
    FAIL_IF_VAR(al->external, "exceeded memory buffer: al->buffer_len = %d\\n",
                old_len)
'''), ("src/parser.c", HEAD_GROW, '''    int new_len = al->buffer_len;
    if (buf_pos + BUFFER_TOLERANCE > new_len)
      new_len = buf_pos + BUFFER_TOLERANCE;
    void *resize = mremap(al->buffer, old_len, new_len, MREMAP_MAYMOVE);
    // NOLINTNEXTLINE(performance-no-int-to-ptr)
    FAIL_SYS(resize == MAP_FAILED, "failed to resize buffer\\n", EXIT_FAILURE)
    al->buffer_len = new_len;
    al->buffer = (uint8_t *)resize;
''')],
 "C17-a": [("src/parser.c", HEAD_GROW, '''    int new_len = al->buffer_len + MEM_BUFFER;
    if (buf_pos + BUFFER_TOLERANCE > new_len)
      new_len = buf_pos + BUFFER_TOLERANCE;
    int old_len = al->buffer_len;
    al->buffer_len = new_len;
    void *resize = mremap(al->buffer, old_len, al->buffer_len, MREMAP_MAYMOVE);
    // NOLINTNEXTLINE(performance-no-int-to-ptr)
    FAIL_SYS(resize == MAP_FAILED, "failed to resize buffer\\n", EXIT_FAILURE)
    al->buffer = (uint8_t *)resize;
''')],
 "C17-f": [("src/parser.c", '''    FAIL_SYS(resize == MAP_FAILED, "failed to resize buffer\\n", EXIT_FAILURE)
    al->buffer_len = new_len;''', '''    if (resize == MAP_FAILED) {
      // tell the user how far the assembly got before the buffer ran out
      fprintf(stderr,
              "assembyline: failed to resize buffer at offset %d (chunk %zu)\\n",
              buf_pos, buf_pos / al->chunk_size);
      perror("error ");
      return EXIT_FAILURE;
    }
    al->buffer_len = new_len;''')],
 "C18-f": [("src/parser.c", '''    FAIL_SYS(resize == MAP_FAILED, "failed to resize buffer\\n", EXIT_FAILURE)
    al->buffer_len = new_len;''', '''    FAIL_SYS(resize == MAP_FAILED, "failed to resize buffer\\n", EXIT_FAILURE)
    // the code was moved to a new mapping: do not leak the old one
    if (resize != (void *)al->buffer)
      munmap(al->buffer, al->buffer_len);
    al->buffer_len = new_len;''')],
}

HEAD_SMART = "  if ((instr_buffer->assembly_opt & SMART_MOV_IMM) &&\n      !(hex && imme_str_len - (imme[0] == '-') >= STR_HEX_64))\n    instr_buffer->assembly_opt |= NASM_MOV_IMM;\n"
RECIPES.update({
 "C02-e": [("src/tokenizer.c", HEAD_SMART, """  if (instr_buffer->assembly_opt & SMART_MOV_IMM) {
    if (hex && imme_str_len - (imme[0] == '-') >= STR_HEX_64)
      instr_buffer->assembly_opt &= SMART_MOV_IMM;
    else
      instr_buffer->assembly_opt |= NASM_MOV_IMM;
  }
""")],
 "C11-a": [("src/tokenizer.c", HEAD_SMART, """  if (instr_buffer->assembly_opt & SMART_MOV_IMM)
    instr_buffer->assembly_opt =
        (hex && imme_str_len - (imme[0] == '-') >= STR_HEX_64)
            ? SMART_MOV_IMM
            : SMART_MOV_IMM | NASM_MOV_IMM;
""")],
 "C11-c": [("src/tokenizer.c", HEAD_SMART, """  if (instr_buffer->assembly_opt & SMART_MOV_IMM) {
    if (hex && imme_str_len - (imme[0] == '-') >= STR_HEX_64)
      instr_buffer->assembly_opt = SMART_MOV_IMM;
    else
      instr_buffer->assembly_opt |= NASM_MOV_IMM;
  }
""")],
 "C11-f": [("src/tokenizer.c", HEAD_SMART, """  // (a decimal literal of that length is wider than 32 bits in any case)
  if ((instr_buffer->assembly_opt & SMART_MOV_IMM) &&
      imme_str_len - (imme[0] == '-') < STR_HEX_64)
    instr_buffer->assembly_opt |= NASM_MOV_IMM;
""")],
})

HEAD_DBG = '  if (al->assembly_mode == CHUNK_FITTING && al->debug)\n    debug_with_chunksize(al->buffer,\n                         buf_pos < (unsigned int)al->buffer_len\n                             ? buf_pos\n                             : (unsigned int)al->buffer_len,\n                         al->chunk_size);\n'
RECIPES.update({
 "C09-f": [("src/parser.c", HEAD_DBG, """  if (al->assembly_mode == CHUNK_FITTING && al->debug)
    debug_with_chunksize(al->buffer + al->offset,
                         buf_pos < (unsigned int)al->buffer_len
                             ? buf_pos
                             : (unsigned int)al->buffer_len,
                         al->chunk_size);
""")],
 "C08-h": [("src/parser.c", HEAD_DBG, HEAD_DBG + """#ifdef __linux__
  // an instance is often reused for many programs: a library-managed buffer
  // that grew for a much longer one is trimmed back to one step above this one
  if (!al->external &&
      al->buffer_len > (int)buf_pos + 2 * MEM_BUFFER + BUFFER_TOLERANCE) {
    int new_len = (int)buf_pos + MEM_BUFFER + BUFFER_TOLERANCE;
    void *trimmed = mremap(al->buffer, al->buffer_len, new_len, MREMAP_MAYMOVE);
    if (trimmed != MAP_FAILED) { // NOLINT
      al->buffer = (uint8_t *)trimmed;
      al->buffer_len = new_len;
    }
  }
#endif
""")],
 "C13-f": [("src/parser.c", """  unsigned int buf_pos = al->offset;
  // read str and assemble instruction line by line""", """  unsigned int buf_pos = al->offset;
  // a chunk that covers the whole buffer has no boundary inside of it that an
  // instruction could cross: plain assembly gives the same result
  ASM_MODE mode = al->assembly_mode;
  if (mode == CHUNK_FITTING && al->chunk_size >= (size_t)al->buffer_len)
    mode = ASSEMBLE;
  // read str and assemble instruction line by line"""), ("src/parser.c", "      switch (al->assembly_mode) {", "      switch (mode) {"), ("src/parser.c", "  if (al->assembly_mode == CHUNK_FITTING && al->debug)\n    debug_with_chunksize(al->buffer,", "  if (mode == CHUNK_FITTING && al->debug)\n    debug_with_chunksize(al->buffer,")],
})

HEAD_BEGIN = """      if (unfiltered_str[i] > '!') {
        filter_str[j++] = (char)tolower(unfiltered_str[i]);"""
DOC = """/**
 * reads @param unfiltered_str and writes the filtered string into @param
 * filter_str
 */
static int filter_assembly_str_fsa("""
def lower_recipe(helper):
    return [("src/parser.c", DOC, helper + DOC), ("src/parser.c", "ALL:(char)tolower(unfiltered_str[i])", "ascii_lower(unfiltered_str[i])")]
RECIPES.update({
 "C10-l": [("src/parser.c", "      if (unfiltered_str[i] > '!') {\n        filter_str[j++] = (char)tolower(unfiltered_str[i]);\n        filter_state = FIRST_CH;", "      // a line starts at its first letter\n      if (isalpha((unsigned char)unfiltered_str[i])) {\n        filter_str[j++] = (char)tolower(unfiltered_str[i]);\n        filter_state = FIRST_CH;")],
 "C01-j": lower_recipe("""/**
 * ASCII-only lower casing: @param c can be any char value (tolower() is
 * undefined for negative arguments and depends on the locale of the caller)
 */
static char ascii_lower(char c) {
  return (c > '@' && c < 'Z') ? (char)(c + ('a' - 'A')) : c;
}

"""),
 "C16-i": lower_recipe("""/**
 * lower-cases an ASCII letter (tolower() depends on the current locale and is
 * a function call per character)
 */
static inline char ascii_lower(char ch) {
  if (ch >= 'A' && ch < 'Z')
    return (char)(ch + ('a' - 'A'));
  return ch;
}

"""),
 "C16-b": "3way",
})

HEAD_LONG = """  // the filtered line must fit (with its terminator) in the caller's buffer
  if (j == MAX_LINE_LEN - 1 && unfiltered_str[i] != ';' &&
      unfiltered_str[i] != '%' && unfiltered_str[i] != '\\r' &&
      unfiltered_str[i] != '\\n' && unfiltered_str[i] != '\\0') {"""
HEAD_SKIP = """  while (j == MAX_LINE_LEN - 1 && unfiltered_str[i] != '\\0' &&
         (unsigned char)unfiltered_str[i] <= '!' &&
         unfiltered_str[i] != '\\r' && unfiltered_str[i] != '\\n')
    i++;
"""
RECIPES.update({
 "C06-e": [("src/parser.c", HEAD_LONG, """  // the filtered line must fit (with its terminator) in the caller's buffer
  // (strchr also matches the string terminator)
  if (j == MAX_LINE_LEN - 1 && strchr(";%\\n", unfiltered_str[i]) == NULL) {""")],
 "C10-c": [("src/parser.c", HEAD_LONG, """  // the filtered line must fit (with its terminator) in the caller's buffer:
  // it is too long only if the filter would have kept the next character
  if (j == MAX_LINE_LEN - 1 && unfiltered_str[i] > '!' &&
      unfiltered_str[i] != ';' && unfiltered_str[i] != '%') {""")],
 "C10-h": "3way",
 "C10-n": [("src/parser.c", HEAD_SKIP, """  while (j == MAX_LINE_LEN - 1 && unfiltered_str[i] != '\\0' &&
         unfiltered_str[i] <= '!' &&
         unfiltered_str[i] != '\\r' && unfiltered_str[i] != '\\n')
    i++;
""")],
})

def main(wt, only=None):
    head = subprocess.check_output("git -C /repo rev-parse --short HEAD", shell=True, text=True).strip()
    E.sh("git checkout -q --detach %s && git checkout -- . && git clean -fdq -e .libs" % head, cwd=wt)
    for name, rec in RECIPES.items():
        if only and name not in only: continue
        d = os.path.join(E.SEEDED, name); meta = json.load(open(os.path.join(d, "meta.json")))
        demo_meta = dict(meta); demo_meta["demo"] = re.sub(r"/tmp/mut/out\d*/C\d\d/[a-z]/", "./", meta.get("demo", ""))   # the demonstration files are the ones stored next to the patch
        orig = os.path.join(d, "patch.orig.diff") if os.path.exists(os.path.join(d, "patch.orig.diff")) else os.path.join(d, "patch.diff")
        E.sh("git checkout -- .", cwd=wt)
        if rec == "3way":
            rc, out = E.sh("git apply --3way %s && git reset -q" % orig, cwd=wt)
            if rc: print(name, "3way failed", out); E.sh("git reset -q --hard HEAD", cwd=wt); continue
        else:
            for f, old, new in rec:
                p = os.path.join(wt, f); s = open(p).read()
                if old.startswith("ALL:"):
                    old = old[4:]
                    if old not in s: print(name, "recipe does not match"); break
                    open(p, "w").write(s.replace(old, new)); continue
                if old not in s: print(name, "recipe does not match"); break
                open(p, "w").write(s.replace(old, new, 1))
        rc, diff = E.sh("git diff", cwd=wt)
        npass, _ = E.suite_passes(wt)
        failed_with, out_with = E.run_demo(wt, d, demo_meta); E.clean_demo(wt, d)
        E.sh("git checkout -- .", cwd=wt); npass0, _ = E.suite_passes(wt)
        failed_without, out_without = E.run_demo(wt, d, demo_meta); E.clean_demo(wt, d)
        ok = npass == 96 and npass0 == 96 and failed_with and not failed_without
        print("%s rebased onto %s: suite with change %d, demonstration with change %s, without %s -> %s" % (name, head, npass, "FAILS" if failed_with else "passes", "FAILS" if failed_without else "passes", "CONFIRMED" if ok else "NOT CONFIRMED"))
        if not ok: print("   with:", out_with[-300:].replace("\n", " | ")); print("   without:", out_without[-300:].replace("\n", " | ")); continue
        if not os.path.exists(os.path.join(d, "patch.orig.diff")): shutil.copy(os.path.join(d, "patch.diff"), os.path.join(d, "patch.orig.diff"))
        open(os.path.join(d, "patch.diff"), "w").write(diff)
        meta["rebased"] = {"onto": head, "note": "a repository fix touched the same lines; the same edit was made on the fixed tree and confirmed again (suite 96 passes with it, demonstration fails with it and passes without it); patch.orig.diff is the change as delivered"}
        json.dump(meta, open(os.path.join(d, "meta.json"), "w"), indent=1)

if __name__ == "__main__":
    main(sys.argv[1], sys.argv[2:])
