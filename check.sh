#!/bin/bash
# check.sh <Cxx> quick|thorough        run one property check (honours VERIF_SEED, VERIF_TIER, VERIF_JOBS)
# check.sh replay <Cxx> <replay-file>  re-execute a saved failing case
cd "$(dirname "$0")" || exit 2
exec python3 driver/run.py "$@"
